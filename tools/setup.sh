#!/bin/sh
# Offline setup: make sure hypothesis is importable by /venv/bin/python (install from the local wheelhouse if not).
cd /verif || exit 1
if ! /venv/bin/python -c "import hypothesis" 2>/dev/null; then
  /venv/bin/pip install --no-index --find-links /opt/veriftools/wheels --target /verif/.deps hypothesis || exit 1
fi
PYTHONPATH=/verif/.deps /venv/bin/python -c "import hypothesis, sys; print('hypothesis', hypothesis.__version__)" || exit 1
mkdir -p /verif/out /verif/evidence
exit 0

#!/bin/bash
# usage: tools/verify_seed.sh <ID> [root=/tmp/seed] [names="a b"] - re-confirms the planted changes a sub-agent left in
# <root>/<ID>/seeded/{a,b}; with names "c d" they are stored as /verif/seeded/<ID>/c and /d (second batch)
# in that scratch worktree: demo passes on the clean tree, patch applies, test suite passes with it, demo fails with it.
# Confirmed changes are copied to /verif/seeded/<ID>/<x>/ (meta.json gets a "confirmed" record).
ID=$1; ROOT=${2:-/tmp/seed}; NAMES=(${3:-a b}); W=$ROOT/$ID; PP="PYTHONPATH=$W/src:$W"
cd $W || exit 2
git checkout -q -- . 2>/dev/null
k=-1
for x in a b; do
  k=$((k+1)); y=${NAMES[$k]}
  S=$W/seeded/$x
  [ -f $S/patch.diff ] || { echo "$ID/$x: no patch"; continue; }
  env $PP timeout 300 /venv/bin/python $S/demo.py >$ROOT/$ID.$x.clean.log 2>&1; clean=$?
  git apply --check $S/patch.diff 2>/dev/null || { echo "$ID/$x: patch does not apply"; continue; }
  git apply $S/patch.diff
  env $PP timeout 300 /venv/bin/python $S/demo.py >$ROOT/$ID.$x.patched.log 2>&1; patched=$?
  tests=$(env $PP timeout 900 /venv/bin/python -m pytest -q -p no:cacheprovider --deselect test/test_eql/test_rendering.py 2>&1 | tail -1)
  git checkout -q -- .
  echo "$ID/$x: demo clean exit=$clean, demo patched exit=$patched, tests with patch: $tests"
  if [ $clean -eq 0 ] && [ $patched -ne 0 ] && echo "$tests" | grep -q "132 passed" && ! echo "$tests" | grep -q "failed"; then
    mkdir -p /verif/seeded/$ID/$y
    cp $S/patch.diff $S/demo.py /verif/seeded/$ID/$y/
    python3 - "$S/meta.json" "/verif/seeded/$ID/$y/meta.json" "$tests" <<'PY'
import json,sys
m=json.load(open(sys.argv[1]))
m["confirmed"]={"demo_on_clean_tree":"exit 0","demo_with_patch":"non-zero exit","test_suite_with_patch":sys.argv[3],
 "how":"tools/verify_seed.sh in the scratch worktree /tmp/seed/<ID>: demo.py on the clean tree, git apply patch.diff, demo.py again, full pytest run (rendering tests deselected as in the baseline), git checkout"}
json.dump(m,open(sys.argv[2],"w"),indent=1)
PY
    echo "   kept -> /verif/seeded/$ID/$y"
  else
    echo "   NOT kept"
  fi
done

#!/usr/bin/env python3
"""Regenerates MANIFEST.json from tools/manifest_entries.json (claimed checks) and properties.jsonl."""
import json, os
root = os.path.dirname(os.path.dirname(os.path.abspath(__file__)))
entries = json.load(open(os.path.join(root, "tools", "manifest_entries.json")))
props = [json.loads(l) for l in open(os.path.join(root, "properties.jsonl"))]
checks, na = [], []
for p in props:
    e = entries["checks"].get(p["id"])
    if e is None:
        na.append(dict(property_id=p["id"], reason=entries["not_applicable"].get(p["id"], "check not built yet; not claimed")))
        continue
    checks.append(dict(
        property_id=p["id"],
        quick_cmd=f"/venv/bin/python -m kverif check {p['id']} --tier quick",
        thorough_cmd=f"/venv/bin/python -m kverif check {p['id']} --tier thorough",
        evidence_file=f"/verif/evidence/{p['id']}.json",
        replay_cmd_template="/venv/bin/python -m kverif replay {path}",
        engine="kverif",
        level_claimed=dict(category="exploration", text=e["text"], design_ref=e.get("design_ref", f"DESIGN.md section 4, {p['id']}")),
        level_note=e["note"],
        technique=e["technique"],
    ))
m = dict(
    version=1,
    setup_cmd="/bin/sh /verif/tools/setup.sh",
    hooks=dict(guard="KRROOD_VERIF", enable="no hooks: checks import krrood from /repo/src as it is (PYTHONPATH forced by the runner)",
               baseline_off_cmd="cd /repo && /venv/bin/python -m pytest -ra -q -p no:cacheprovider --timeout=900 --continue-on-collection-errors",
               source_commits=[], add_only=True),
    engines=[dict(name="kverif", path="/verif/kverif", serves_properties=[c["property_id"] for c in checks],
                  kind_free_text="seeded Hypothesis generation of JSON IRs, interpreted through krrood's public API and through independent oracles; 16 shards; replay corpus; known-findings protocol")],
    checks=checks,
    notes=entries.get("notes", ""),
    not_applicable=na,
)
json.dump(m, open(os.path.join(root, "MANIFEST.json"), "w"), indent=1)
print(len(checks), "checks,", len(na), "not claimed")

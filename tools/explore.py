#!/usr/bin/env python3
"""Development tool: run N random cases of a check in-process and print failure buckets by feature set."""
import sys, os, json, collections, warnings
warnings.simplefilter("ignore")
sys.path.insert(0, os.path.dirname(os.path.dirname(os.path.abspath(__file__))))
from kverif.core import install_repo_path
install_repo_path()
from kverif import runner
import hypothesis
from hypothesis import given, settings, HealthCheck, Phase

cid, n = sys.argv[1], int(sys.argv[2])
seed = int(sys.argv[3]) if len(sys.argv) > 3 else 0
tier = sys.argv[4] if len(sys.argv) > 4 else "quick"
skip = set(sys.argv[5].split(",")) if len(sys.argv) > 5 and sys.argv[5] else set()
check = runner.load_check(cid); check.setup_worker()
buckets = collections.defaultdict(list); cnt = collections.Counter()
@hypothesis.seed(seed)
@settings(max_examples=n, database=None, deadline=None, suppress_health_check=list(HealthCheck), phases=[Phase.generate])
@given(check.strategy(tier, frozenset(skip)))
def t(ir):
    feats = check.static_features(ir)
    if feats & skip:
        cnt["skipped"] += 1; return
    out = runner.safe_run(check, ir)
    if out.rejected: cnt["rejected"] += 1; return
    cnt["eval"] += 1
    if out.nontrivial: cnt["nontrivial"] += 1
    if not out.ok:
        cnt["fail"] += 1
        buckets[(out.kind, out.bucket if out.kind == "crash" else "")].append((len(json.dumps(ir)), sorted(feats | set(out.features)), ir, out.detail))
t()
print(dict(cnt))
for k, v in sorted(buckets.items(), key=lambda kv: -len(kv[1])):
    print("=" * 100); print(k, len(v))
    fc = collections.Counter(f for x in v for f in x[1])
    print("  feature counts:", dict(fc.most_common()))
    # minimal feature sets
    sets = collections.Counter(tuple(x[1]) for x in v)
    for s, c in sorted(sets.items(), key=lambda kv: (len(kv[0]), -kv[1]))[:6]:
        print("   ", c, s)
    v.sort(key=lambda x: x[0])
    for x in v[:int(os.environ.get("SHOW", "2"))]:
        print("  smallest:", json.dumps({k2: x[2][k2] for k2 in x[2] if k2 != "world"})[:1500]); print("   world:", json.dumps(x[2].get("world"))[:600]); print("   detail:", x[3][:600])

#!/usr/bin/env python3
import sys, json, os
sys.path.insert(0, os.path.dirname(os.path.dirname(os.path.abspath(__file__))))
from kverif.eql import pretty
for p in sys.argv[1:]:
    d = json.load(open(p))
    print("#", p, d.get("kind"), d.get("features"))
    print(pretty.query(d["ir"]))
    print("  ->", (d.get("detail") or "")[:400].replace("\n", " | "))
    print()

#!/usr/bin/env python3
import sys, json, os
sys.path.insert(0, os.path.dirname(os.path.dirname(os.path.abspath(__file__))))
from kverif.eql import pretty

def show_tree(block, blocks, indent=0, kind="base"):
    i = blocks.index(block)
    pad = "    " * indent
    conds = ", ".join(pretty.cond(c) for c in block["conds"])
    head = "with query:   # base: " + conds if kind == "base" else f"with {kind}({conds}):"
    print(pad + head)
    if block["args"] is not None:
        print(pad + f"    Add(views, K{i}(" + ", ".join(f"v{j}" for j in block["args"]) + "))")
    for ch in block["children"]:
        show_tree(ch["block"], blocks, indent + 1, ch["kind"])

for p in sys.argv[1:]:
    d = json.load(open(p))
    print("#", p, d.get("kind"), d.get("features"))
    ir = d["ir"]
    if "tree" in ir:
        from kverif.checks.c08 import blocks_in_order
        q = dict(ir, dvars=[], conds=[], sel=dict(kind="entity", terms=[]))
        print(pretty.query(q).rsplit("\n", 1)[0])
        show_tree(ir["tree"], blocks_in_order(ir["tree"]))
    else:
        print(pretty.query(ir))
    print("  ->", (d.get("detail") or "")[:400].replace("\n", " | "))
    print()

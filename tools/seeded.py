#!/usr/bin/env python3
"""Apply every planted change under seeded/<ID>/<x>/patch.diff to /repo, run the quick check of its property,
revert, and record the verdicts in seeded/RESULTS.md.

usage: tools/seeded.py [ID[/x] ...]      (default: all)
/repo must be clean; it is restored with `git checkout -- .` after every patch.
"""
import json
import os
import subprocess
import sys

ROOT = os.path.dirname(os.path.dirname(os.path.abspath(__file__)))
REPO = "/repo"


def sh(cmd, **kw):
    return subprocess.run(cmd, shell=True, capture_output=True, text=True, **kw)


def main():
    if sh(f"git -C {REPO} status --porcelain").stdout.strip():
        print("refusing: /repo is not clean")
        return 2
    wanted = sys.argv[1:]
    rows = []
    base = os.path.join(ROOT, "seeded")
    for pid in sorted(os.listdir(base)):
        d = os.path.join(base, pid)
        if not os.path.isdir(d):
            continue
        for x in sorted(os.listdir(d)):
            patch = os.path.join(d, x, "patch.diff")
            if not os.path.exists(patch):
                continue
            if wanted and pid not in wanted and f"{pid}/{x}" not in wanted:
                continue
            meta = json.load(open(os.path.join(d, x, "meta.json")))
            checks = [pid] + [c for c in meta.get("also_run", []) if c != pid]
            ap = sh(f"git -C {REPO} apply {patch}")
            if ap.returncode != 0:
                rows.append((pid, x, "PATCH DOES NOT APPLY", meta.get("summary", "")))
                continue
            try:
                verdicts = []
                for c in checks:
                    env = dict(os.environ, KVERIF_OUT=f"/tmp/kv_seeded_out", KVERIF_EVIDENCE=f"/tmp/kv_seeded_ev", KVERIF_MAX_ROUNDS="1")
                    r = sh(f"cd {ROOT} && timeout 1500 /venv/bin/python -m kverif check {c} --tier quick", env=env)
                    first = next((l for l in r.stdout.splitlines() if l.strip().startswith("kind=")), "").strip()
                    verdicts.append(f"{c}: exit {r.returncode} {first}")
                rows.append((pid, x, "; ".join(verdicts), meta.get("summary", "")))
            finally:
                sh(f"git -C {REPO} checkout -- .")
            print(rows[-1], flush=True)
    sh("rm -rf /tmp/kv_seeded_out /tmp/kv_seeded_ev")
    path = os.path.join(base, "RESULTS.md")
    old = open(path).read() if os.path.exists(path) else "# Planted changes: which check catches which\n\n| property | change | quick check verdict(s) with the patch applied | what was changed |\n|---|---|---|---|\n"
    lines = [l for l in old.splitlines() if not any(l.startswith(f"| {p} | {x} |") for p, x, _, _ in rows)]
    for p, x, v, s in rows:
        lines.append(f"| {p} | {x} | {v} | {s.replace('|', '/')} |")
    open(path, "w").write("\n".join(lines) + "\n")
    return 0


if __name__ == "__main__":
    sys.exit(main())

#!/bin/bash
# Re-confirms every planted change on the current tree: demo passes on the clean tree, fails with the patch applied.
# /repo must be clean; each patch is applied and reverted straight afterwards.
cd /repo || exit 2
[ -z "$(git status --porcelain)" ] || { echo "/repo is dirty"; exit 2; }
for d in /verif/seeded/C*/*/; do
  id=$(basename $(dirname $d))/$(basename $d)
  PYTHONPATH=/repo/src:/repo timeout 300 /venv/bin/python $d/demo.py >/dev/null 2>&1; clean=$?
  if git apply $d/patch.diff 2>/dev/null; then
    PYTHONPATH=/repo/src:/repo timeout 300 /venv/bin/python $d/demo.py >/dev/null 2>&1; patched=$?
  else
    patched="patch-does-not-apply"
  fi
  git checkout -- . ; git clean -fdq
  echo "$id clean=$clean patched=$patched"
done

#!/bin/sh
# runs every check in the thorough tier with a reduced number of examples (smoke test of the thorough configuration)
cd "$(dirname "$0")/.." || exit 2
for id in C01 C02 C03 C04 C05 C06 C07 C08 C09 C10 C11 C12 C13 C14 C15 C16 C17 C18 C19 C20; do
  ex=$1; [ -z "$ex" ] && ex=200
  case $id in C04|C05|C06|C07) ex=$((ex/10));; esac
  KVERIF_EVIDENCE=out/thorough_evidence /venv/bin/python -m kverif check $id --tier thorough --examples $ex 2>&1 | grep -v KNOWN-FINDING | cut -c1-300
  echo "== $id exit=$?"
done

#!/bin/bash
# usage: tools/mut.sh <CHECK_ID> <file-relative-to-repo> <python-regex> <replacement> [extra kverif args]
# Copies /repo (src+test) to a scratch dir, applies one textual mutation, runs the quick check against it, removes the copy.
set -u
ID=$1; FILE=$2; PAT=$3; REP=$4; shift 4
D=$(mktemp -d /tmp/kvmut.XXXXXX)
mkdir -p $D/repo
cp -r /repo/src /repo/test $D/repo/ 2>/dev/null
python3 - "$D/repo/$FILE" "$PAT" "$REP" <<'PY'
import re,sys
p,pat,rep=sys.argv[1:4]
import codecs; rep=codecs.decode(rep,'unicode_escape')
s=open(p).read()
n=len(re.findall(pat,s,flags=re.S))
if n!=1:
    print(f"MUTATION PATTERN MATCHES {n} TIMES (need 1)"); sys.exit(3)
open(p,'w').write(re.sub(pat,lambda m: rep,s,count=1,flags=re.S))
PY
rc=$?
if [ $rc -eq 0 ]; then
  cd /verif && KVERIF_REPO=$D/repo KVERIF_OUT=$D/out KVERIF_EVIDENCE=$D/evidence /venv/bin/python -m kverif check $ID --tier quick "$@" 2>&1 | grep -v "SyntaxWarning\|^  \"\"\"" | head -${MUT_LINES:-12}
  rc=${PIPESTATUS[0]}
fi
rm -rf $D
echo "mutant exit=$rc"

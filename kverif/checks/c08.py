"""C08 - rule trees follow except-if / else-if / also-if semantics.

IR: {"world","vars","tree":Block}
  Block = {"conds":[Cond], "args":[var indexes of the conclusion] | None, "children":[{"kind","block"}]}
  kind in refinement | alternative | next_rule ; every block with "args" concludes Add(views, inference(K_i)(v<j>=var_j ...))
  with a class K_i unique to the block (i = position in written order), so the branch that fired is visible.
  optional "twin": every concluding block concludes a second instance as well, Add(views2, inference(L_i)(v<j>=var_j ...))
  over block["args2"] (a non-empty subset of its args); the query selects set_of([views, views2], ...).
Oracle: reference ripple-down-rules interpreter per total assignment of the base variables.
"""
from __future__ import annotations

import itertools
from dataclasses import make_dataclass

from hypothesis import strategies as st

from ..core import Check, Outcome, crash, fail
from ..eql import gen, lang, run

KINDS = ("refinement", "alternative", "next_rule")


def blocks_in_order(block, acc=None):
    acc = acc if acc is not None else []
    acc.append(block)
    for ch in block["children"]:
        blocks_in_order(ch["block"], acc)
    return acc


def shape_features(tree):
    """structural signature of the written tree"""
    f = set()

    def chain_len(block):
        """number of alternative/next elements in the chain started by this block (DFS written order)"""
        n = 0
        for ch in block["children"]:
            if ch["kind"] != "refinement":
                n += 1 + chain_len(ch["block"])
        return n

    def rec(block, kind, depth):
        kinds = [ch["kind"] for ch in block["children"]]
        for k in KINDS:
            c = kinds.count(k)
            if c >= 1:
                f.add(f"{kind}>{k}")
            if c >= 2:
                f.add(f"{kind}:siblings_{k}")
        seen_alt = False
        for k in kinds:
            if k != "refinement":
                seen_alt = True
            elif seen_alt:
                f.add("refinement_written_after_alternative")
        if kind in ("base", "refinement"):
            n = chain_len(block)
            if n >= 2:
                f.add(f"{kind}_chain_len>=2")
            if n >= 3:
                f.add(f"{kind}_chain_len>=3")
        if block.get("args") is None:
            f.add(f"{kind}_without_conclusion")
        f.add(f"depth{min(depth, 3)}")
        for ch in block["children"]:
            rec(ch["block"], ch["kind"], depth + 1)

    rec(tree, "base", 0)

    def chain_kinds(block):
        out = []
        for ch in block["children"]:
            if ch["kind"] != "refinement":
                out.append(ch["kind"])
                out.extend(chain_kinds(ch["block"]))
        return out

    def check_chains(block):
        ks = chain_kinds(block)
        if "next_rule" in ks and "alternative" in ks[ks.index("next_rule"):]:
            f.add("alternative_after_next_rule")
        for ch in block["children"]:
            if ch["kind"] == "refinement":
                check_chains(ch["block"])
            else:
                for g in ch["block"]["children"]:
                    if g["kind"] == "refinement":
                        check_chains(g["block"])
        return None

    def all_units(block):
        yield block
        for ch in block["children"]:
            yield from all_units(ch["block"])

    def cond_vars(block):
        refs = set()
        for c in block["conds"]:
            lang.cond_refs(c, refs)
        return {i for (_, i) in refs}

    def subtree_vars(block):
        out = set()
        for u in all_units(block):
            out |= cond_vars(u)
        return out

    for b in all_units(tree):
        refs_ = [ch["block"] for ch in b["children"] if ch["kind"] == "refinement"]
        for x in range(len(refs_)):
            # whether the earlier sibling (with everything below it) fires depends on these variables; a conclusion
            # anywhere below a later sibling that is over fewer variables is recorded as concluded for a binding
            # where the earlier sibling overrides it, and is then missing for the bindings where it does not
            depends_on = subtree_vars(refs_[x])
            for y in range(x + 1, len(refs_)):
                for z in all_units(refs_[y]):
                    if z["args"] is not None and not depends_on <= set(z["args"]):
                        f.add("sibling_refinement_shadowing")

    check_chains(tree)
    for b in all_units(tree):
        for ch in b["children"]:
            if ch["kind"] == "refinement":
                check_chains(ch["block"])
    return f


def ir_features(ir):
    f = shape_features(ir["tree"])
    if len(stage_bounds(ir)) > 1 and ir.get("eval_between"):
        f.add("extended_after_evaluation")
    if ir.get("twin"):
        f.add("two_conclusions_per_branch")
        if any(b["args"] is not None and len(b["args2"]) < len(b["args"]) for b in blocks_in_order(ir["tree"])):
            f.add("second_conclusion_over_fewer_variables")
    return f


def stage_bounds(ir):
    """[(lo, hi)] index ranges of the base block's children written per `with query:` block"""
    n = len(ir["tree"]["children"])
    sizes = [k for k in (ir.get("stages") or []) if k > 0]
    out, lo = [], 0
    for k in sizes:
        if lo + k >= n:
            break
        out.append((lo, lo + k))
        lo += k
    out.append((lo, n))
    return out


def partial_ir(ir, n_children, with_base_conclusion):
    """the rule tree as written after some of the blocks"""
    tree = dict(ir["tree"], children=ir["tree"]["children"][:n_children])
    if not with_base_conclusion:
        tree["args"] = None
    return dict(ir, tree=tree)


class C08(Check):
    id = "C08"
    title = "Rule trees follow except-if / else-if / also-if semantics"
    rule = (
        "Hypothesis draws a world, 1-3 base variables, a base query with conjunctive conditions mentioning every "
        "variable, and a written tree of refinement/alternative/next_rule blocks to depth 3 with up to 3 children "
        "per block, each concluding Add(views, inference(K_i)(...)) with a class unique to the branch; branch "
        "conditions range over the base variables (primary fragment). Oracle: a reference ripple-down-rules "
        "interpreter applied to every total assignment of the base variables (refinement = exception to its "
        "parent, recursively; alternative = next else-if of the chain its block belongs to, in written order; "
        "next_rule = in addition); where several sibling refinements hold any one is accepted (lower/upper "
        "bound). The set {(K_i, identities of the constructor arguments)} must match the instances returned by "
        "evaluate(), and a second evaluate() of the same rule query must return the same set. A third of the trees "
        "with >= 2 top-level branches is written in several `with query:` blocks (the base conclusion in the first or "
        "the last one), optionally evaluated after each block against the oracle of the tree written so far. A quarter "
        "of the trees conclude two instances per branch (set_of over two inferred variables), the second one built from "
        "a subset of the branch's variables; the two instances of a result must stem from one branch and one binding. Non-trivial: at "
        "least two different branches fire for different assignments and some branch is overridden or skipped. "
        "Distinct = distinct IR."
    )
    assumptions = [
        "conclusion arguments are variables occurring in the branch's own conditions (a conclusion over a variable no holding condition mentions is ill-formed)",
        "branch conditions range over the base query's variables only, so 'a binding' is a total assignment of those variables",
        "conclusions are compared as sets (the engine de-duplicates conclusions; the statement promises no multiplicity)",
        "an alternative written after a next_rule: 'its chain' is read either as everything written before it or as the branches since that next_rule; where the readings differ the alternative's conclusions are allowed but not required",
        "blocks written below an alternative/next_rule branch only mention that branch's variables (primary fragment)",
        "conditions are comparisons/membership/boolean calls combined with and_ (the C02 fragment without or_)",
        "every branch condition is an expression object of its own (one condition object placed in two branches of a rule tree is not generated)",
    ]
    budget = {
        "quick": dict(examples=300, shards=16, seconds=75),
        "thorough": dict(examples=12000, shards=16, seconds=1200),
    }

    # ------------------------------------------------------------------------------------------
    def strategy(self, tier, exclude):
        cfg = gen.Cfg(fragment="c02", allow_quantifiers=False, allow_subquery=False, allow_flatten=False,
                      allow_derived_selection=False, allow_empty_domain=False, min_dom=1, allow_noise=False,
                      allow_predicates=True, unique_domains=True, allow_shared_nodes=False)
        cfg.max_vars = 3
        ex = set(exclude)

        @st.composite
        def ir(draw):
            ctx = gen._Ctx(draw, cfg)
            world, ctx.flags = gen._world(draw, cfg)
            ctx.n_objs = len(world["objs"])
            n_vars = draw(st.integers(1, cfg.max_vars))
            for i in range(n_vars):
                ctx.vars.append({"type": "Item", "dom": draw(gen._domain(cfg, ctx.n_objs, False)), "gen": draw(st.booleans()),
                                 "local": False, "sub": None})
            scope = [("var", i) for i in range(n_vars)]

            def conds_over(sub, n_extra):
                cs = [ctx.atom_c02([r]) for r in sub]  # every variable of `sub` is mentioned
                cs += [ctx.atom_c02(sub) for _ in range(n_extra)]
                return cs

            def allowed(kind, child_kind, block_children, chain_so_far):
                feats_if = set()
                return True

            def block(kind, depth, avail, chain_is_root):
                """avail: variables the block may mention. Blocks below an alternative/next branch only mention that
                branch's variables (a refinement over a variable its branch does not bind is judged existentially
                by the engine - the extended fragment, where 'a binding' is a matter of reading)."""
                if kind == "base":
                    sub = scope
                else:
                    k = draw(st.integers(1, len(avail)))
                    sub = draw(st.lists(st.sampled_from(avail), min_size=k, max_size=k, unique=True))
                conds = conds_over(sub, draw(st.integers(0, 1)))
                args = sorted(i for (_, i) in sub)
                # a refinement without a conclusion is a stopping rule: where it holds, nothing is concluded
                has_concl = draw(st.sampled_from([True, True, True, False])) if kind in ("base", "refinement") else True
                children = []
                if depth < 3:
                    n_children = draw(st.sampled_from([0, 0, 1, 1, 2, 3] if depth == 0 else [0, 0, 0, 1, 2]))
                    if depth == 0 and n_children == 0 and draw(st.booleans()):
                        n_children = 1
                    for _ in range(n_children):
                        ck = draw(st.sampled_from(KINDS))
                        if ck == "refinement":
                            child_avail = scope if kind == "base" else (sub if kind in ("alternative", "next_rule") else avail)
                            children.append({"kind": ck, "block": block(ck, depth + 1, child_avail, False)})
                        else:
                            child_avail = scope if chain_is_root else avail
                            children.append({"kind": ck, "block": block(ck, depth + 1, child_avail, chain_is_root)})
                return {"conds": conds, "args": args if has_concl else None, "children": children}

            tree = block("base", 0, scope, True)
            out = {"world": world, "vars": ctx.vars, "tree": tree}
            if len(tree["children"]) >= 2 and draw(st.sampled_from([0, 0, 1])):
                # the tree is written in several `with query:` blocks, possibly evaluated in between
                out["stages"] = draw(st.lists(st.integers(1, 2), min_size=1, max_size=2))
                out["late_add"] = draw(st.booleans()) and tree["args"] is not None
                out["eval_between"] = draw(st.booleans()) and "extended_after_evaluation" not in ex
            if draw(st.sampled_from([0, 0, 0, 1])):
                # every branch concludes two instances, the second one possibly about fewer variables of the binding
                out["twin"] = True
                for blk in blocks_in_order(tree):
                    if blk["args"] is not None:
                        k = draw(st.integers(1, len(blk["args"])))
                        blk["args2"] = sorted(draw(st.lists(st.sampled_from(blk["args"]), min_size=k, max_size=k, unique=True)))
            return out

        return ir()

    def static_features(self, ir):
        return ir_features(ir)

    # ------------------------------------------------------------------------------------------
    def oracle(self, ir, objs):
        blocks = blocks_in_order(ir["tree"])
        index = {id(b): i for i, b in enumerate(blocks)}
        base_ir = {"world": ir["world"], "vars": ir["vars"], "dvars": [], "conds": [], "sel": {"kind": "entity", "terms": []}}
        orc = lang.Oracle(base_ir, objs)
        n_vars = len(ir["vars"])
        fired_blocks = {}
        overridden = [False]

        def holds(block, s):
            return all(orc.holds(c, s) for c in block["conds"])

        def concl(block, s):
            if block["args"] is None:
                return frozenset()
            return frozenset([(index[id(block)], tuple(objs_label(s[("var", i)]) for i in block["args"]))])

        def objs_label(o):
            return o._label

        def chain_of(block):
            out = [("first", block)]
            for ch in block["children"]:
                if ch["kind"] != "refinement":
                    sub = chain_of(ch["block"])
                    out.append((ch["kind"], sub[0][1]))
                    out.extend(sub[1:])
            return out

        def eval_unit(block, s):
            """(fired, lower, upper) of a node together with its refinements"""
            if not holds(block, s):
                return False, frozenset(), frozenset()
            firing = []
            for ch in block["children"]:
                if ch["kind"] == "refinement":
                    f, lo, up = eval_chain(chain_of(ch["block"]), s)
                    if f:
                        firing.append((lo, up))
            if not firing:
                fired_blocks.setdefault(index[id(block)], True)
                c = concl(block, s)
                return True, c, c
            overridden[0] = True
            lo = frozenset.intersection(*[x[0] for x in firing])
            up = frozenset.union(*[x[1] for x in firing])
            return True, lo, up

        def eval_chain(chain, s):
            """An alternative fires iff no earlier branch of its chain fired. When a next_rule was written earlier in
            the chain, 'its chain' has two readings - everything written before it, or the branches since that
            next_rule - which differ only when something fired before the next_rule and nothing since: there the
            alternative's conclusions are allowed but not required."""
            fired_any, fired_since_next, lo, up = False, False, frozenset(), frozenset()
            for kind, blk in chain:
                if kind == "alternative" and fired_since_next:
                    overridden[0] = True
                    continue
                ambiguous = kind == "alternative" and fired_any
                f, l, u = eval_unit(blk, s)
                if kind == "next_rule":
                    fired_since_next = False
                if f:
                    fired_any = fired_since_next = True
                    lo, up = (lo if ambiguous else lo | l), up | u
            return fired_any, lo, up

        lower, upper = set(), set()
        doms = [orc.var_domains[i] for i in range(n_vars)]
        for combo in itertools.product(*doms):
            s = {("var", i): o for i, o in enumerate(combo)}
            f, lo, up = eval_chain(chain_of(ir["tree"]), s)
            lower |= lo
            upper |= up
        if ir.get("twin"):
            # the pair of instances of one result: both from the same branch, the second one built from the
            # values of the same binding
            def pair(el):
                i, labels = el
                a, a2 = blocks[i]["args"], blocks[i]["args2"]
                return (i, labels + ("&",) + tuple(labels[a.index(j)] for j in a2))

            lower, upper = {pair(e) for e in lower}, {pair(e) for e in upper}
        return lower, upper, overridden[0]

    # ------------------------------------------------------------------------------------------
    def build(self, ir, objs, on_stage=None):
        """returns (rule query, decode(instance) -> (branch index, argument labels)).
        ir["stages"] (optional): sizes of the groups of the base block's children that are written in separate
        `with query:` blocks; ir["late_add"]: the base conclusion is written in the last block instead of the first.
        on_stage(query, decode, n_children_written, base_conclusion_written) is called after every block."""
        from krrood.entity_query_language.conclusion import Add
        from krrood.entity_query_language.entity import entity, inference, set_of
        from krrood.entity_query_language.quantify_entity import an
        from krrood.entity_query_language.rule import alternative, next_rule, refinement

        blocks = blocks_in_order(ir["tree"])
        n_vars = len(ir["vars"])
        K = [make_dataclass(f"K{i}", [(f"v{j}", object, None) for j in range(n_vars)], eq=False) for i in range(len(blocks))]
        View = make_dataclass("View", [], eq=False)
        index = {id(b): i for i, b in enumerate(blocks)}
        base_ir = {"world": ir["world"], "vars": ir["vars"], "dvars": [], "conds": [], "sel": {"kind": "entity", "terms": []}, "quant": "an"}
        b = lang.Builder(base_ir, objs, hooks=run.hooks())
        variables = [b.var(i) for i in range(n_vars)]
        views = inference(View)()
        twin = bool(ir.get("twin"))
        if twin:
            L = [make_dataclass(f"L{i}", [(f"v{j}", object, None) for j in range(n_vars)], eq=False) for i in range(len(blocks))]
            View2 = make_dataclass("View2", [], eq=False)
            views2 = inference(View2)()
            query = an(set_of([views, views2], *[b.cond(c) for c in ir["tree"]["conds"]]))
        else:
            query = an(entity(views, *[b.cond(c) for c in ir["tree"]["conds"]]))
        fn = {"refinement": refinement, "alternative": alternative, "next_rule": next_rule}

        def conclude(block):
            if block["args"] is not None:
                Add(views, inference(K[index[id(block)]])(**{f"v{j}": variables[j] for j in block["args"]}))
                if twin:
                    Add(views2, inference(L[index[id(block)]])(**{f"v{j}": variables[j] for j in block["args2"]}))

        def emit_child(ch):
            with fn[ch["kind"]](*[b.cond(c) for c in ch["block"]["conds"]]):
                conclude(ch["block"])
                for g in ch["block"]["children"]:
                    emit_child(g)

        def decode_one(inst):
            i = next((k for k, cls in enumerate(K) if type(inst) is cls), None)
            if i is None:
                return ("?", repr(inst))
            return (i, tuple(getattr(inst, f"v{j}")._label for j in blocks[i]["args"]))

        def decode(res):
            if not twin:
                return decode_one(res)
            first, second = res[views], res[views2]
            i, labels = decode_one(first)
            i2 = next((k for k, cls in enumerate(L) if type(second) is cls), None)
            if i == "?" or i2 is None:
                return ("?", (repr(first), repr(second)))
            labels2 = tuple(getattr(second, f"v{j}")._label for j in blocks[i2]["args2"])
            if i2 != i:
                return (f"{i}+{i2}", labels + ("&",) + labels2)  # the two instances of one result come from different branches
            return (i, labels + ("&",) + labels2)

        children = ir["tree"]["children"]
        stages = stage_bounds(ir)
        late = bool(ir.get("late_add")) and len(stages) > 1
        for si, (lo, hi) in enumerate(stages):
            with query:
                if (si == 0 and not late) or (late and si == len(stages) - 1):
                    conclude(ir["tree"])
                for ch in children[lo:hi]:
                    emit_child(ch)
            if on_stage is not None:
                on_stage(query, decode, hi, (not late) or si == len(stages) - 1)
        return query, decode

    def evaluate(self, ir, objs, times=2):
        """returns (runs of the complete tree, [(partial ir, result)] of the evaluations between the blocks)"""
        between = []

        def on_stage(query, decode, n_children, base_concluded):
            if ir.get("eval_between") and n_children < len(ir["tree"]["children"]):
                between.append((partial_ir(ir, n_children, base_concluded), {decode(inst) for inst in query.evaluate()}))

        query, decode = self.build(ir, objs, on_stage)
        runs = []
        for _ in range(times):
            runs.append({decode(inst) for inst in query.evaluate()})
        return runs, between

    def run(self, ir) -> Outcome:
        objs = lang.build_world(ir["world"])
        feats = ir_features(ir)
        classes = sorted(x for x in feats)
        lower, upper, overridden = self.oracle(ir, objs)
        nontrivial = len({k for k, _ in upper}) >= 2 and overridden
        fb = ",".join(sorted(feats - {f for f in feats if f.startswith("depth")}))
        if len(stage_bounds(ir)) > 1:
            classes.append("tree_written_in_several_blocks")
            if ir.get("late_add"):
                classes.append("base_conclusion_written_last")
            if ir.get("eval_between"):
                classes.append("evaluated_between_blocks")
        try:
            runs, between = self.evaluate(ir, objs)
        except Exception as exc:
            return crash(exc, "rule tree", classes=classes, nontrivial=nontrivial, features=feats)
        for part, got_part in between:
            lo_p, up_p, _ = self.oracle(part, objs)
            if (lo_p - got_part) or (got_part - up_p):
                return fail("wrong_conclusions_of_partial_tree",
                            f"after {len(part['tree']['children'])} of {len(ir['tree']['children'])} branches: missing={sorted(lo_p - got_part, key=repr)[:4]} extra={sorted(got_part - up_p, key=repr)[:4]}",
                            classes=classes, nontrivial=nontrivial, features=feats, bucket=fb)
        got = runs[0]
        missing, extra = lower - got, got - upper
        if missing or extra:
            silent = {k for k, _ in lower} - {k for k, _ in got}
            kind = "missing_conclusion" if missing and not extra else ("extra_conclusion" if extra and not missing else "wrong_conclusions")
            if silent:
                kind = "branch_silently_ignored" if not extra else kind
            return fail(kind, f"missing={sorted(missing, key=repr)[:4]} extra={sorted(extra, key=repr)[:4]} ignored_branches={sorted(silent, key=repr)}",
                        classes=classes, nontrivial=nontrivial, features=feats, bucket=fb)
        if runs[1] != runs[0]:
            return fail("second_evaluation_differs", f"first={sorted(runs[0], key=repr)[:4]} second={sorted(runs[1], key=repr)[:4]}",
                        classes=classes, nontrivial=nontrivial, features=feats | {"re_evaluation"}, bucket=fb)
        return Outcome(nontrivial=nontrivial, classes=classes)


CHECK = C08()

"""C13 - domain-less variables range over exactly the live instances of their type.

IR: {"ops": [["create", cls] | ["drop", i] | ["gc"] | ["query", T] | ["declare", T] | ["evaluate_declared", k]
             | ["requery", k] | ["clear"]]}
Oracle: a weak-reference census kept by the harness.
"""
from __future__ import annotations

import gc
import weakref
from collections import Counter

from hypothesis import strategies as st

from ..core import Check, Outcome, crash, fail

NAMES = ["A", "B", "C", "D", "E", "F", "Z"]


class C13(Check):
    id = "C13"
    title = "Domain-less variables range over exactly the live instances of their type"
    rule = (
        "Hypothesis draws a history over the hierarchy A, B(A), C(A), D(B,C) (diamond), E(B), Z: create(cls), "
        "drop(handle), gc, query(T) with a fresh an(entity(let(T, None))), declare(T) now and evaluate later (also "
        "an(set_of([x, y], x.n >= 0)) whose second domain-less variable occurs in no condition), "
        "re-evaluate an earlier query object, SymbolGraph clear + re-creation. Oracle: a weak-reference census of "
        "every instance created since the last clear; after every evaluation the multiset of returned identities "
        "must equal the set of live census entries that are instances of T, each once. Non-trivial: the history "
        "has a drop followed by gc before a query, and instances of >= 2 classes. Distinct = distinct IR."
    )
    assumptions = [
        "CPython reference counting: an instance is dead when the harness drops its only reference (and after gc.collect() for safety)",
        "results of earlier queries are dropped by the harness before the next step, so that they do not keep instances alive; "
        "query objects that are kept for re-evaluation keep the instances they returned alive (the census counts them as live)",
        "instances created before a SymbolGraph clear are not expected afterwards (a new graph starts empty); queries declared before the clear are kept and must range over the new graph's instances",
    ]
    budget = {
        "quick": dict(examples=250, shards=16, seconds=75),
        "thorough": dict(examples=10000, shards=16, seconds=1200),
    }

    def setup_worker(self):
        from krrood.entity_query_language.symbol_graph import SymbolGraph

        from ..models import symbols  # noqa: F401

        SymbolGraph().clear()
        SymbolGraph()
        gc.collect()
        gc.freeze()

    def strategy(self, tier, exclude):
        ops = [
            st.tuples(st.just("create"), st.sampled_from(NAMES)),
            st.tuples(st.just("create"), st.sampled_from(NAMES)),
            st.tuples(st.just("create"), st.sampled_from(NAMES)),
            st.tuples(st.just("drop"), st.integers(0, 9)),
            st.tuples(st.just("gc")),
            st.tuples(st.just("query"), st.sampled_from(NAMES)),
            st.tuples(st.just("query"), st.sampled_from(["A", "A", "B", "C"])),
            st.tuples(st.just("declare"), st.sampled_from(NAMES)),
            st.tuples(st.just("declare_pair"), st.sampled_from(NAMES), st.sampled_from(NAMES)),
            st.tuples(st.just("evaluate_declared"), st.integers(0, 5)),
            st.tuples(st.just("clear")),
        ]
        if "requery" not in exclude:
            ops.append(st.tuples(st.just("requery"), st.integers(0, 5)))
        creates = st.lists(st.tuples(st.just("create"), st.sampled_from(NAMES)).map(list), min_size=2, max_size=5)
        body = st.lists(st.one_of(*ops).map(list), min_size=3, max_size=25 if tier == "quick" else 60)
        churn = st.just([["drop", 0], ["gc"]])
        return st.tuples(creates, st.one_of(churn, st.just([])), body).map(lambda t: {"ops": t[0] + t[1] + t[2]})

    def static_features(self, ir):
        f = set()
        if any(op[0] == "requery" for op in ir["ops"]):
            f.add("requery")
        return f

    def run(self, ir) -> Outcome:
        from krrood.entity_query_language.entity import entity, let
        from krrood.entity_query_language.quantify_entity import an
        from krrood.entity_query_language.symbol_graph import SymbolGraph

        from ..models import symbols as S

        SymbolGraph().clear()
        SymbolGraph()
        gc.collect()
        live = []       # strong references held by the "user program"
        census = []     # (weakref, class name)
        declared = []   # (query, T) declared but not yet evaluated
        evaluated = []  # (query, T) evaluated at least once
        classes = set()
        dropped_then_gc = False
        pending_drop = False
        nontrivial_query = False

        def expected(T):
            return Counter(id(r()) for r, c in census if r() is not None and c in S.SUBCLASSES[T])

        def check(q, T, what, n):
            if isinstance(T, tuple):
                # an(set_of([x, y], x.n >= 0)): y is selected, domain-less and mentioned by no condition
                q, x, y = q
                res = list(q.evaluate())
                got = Counter((id(r[x]), id(r[y])) for r in res)
                del res
                want = Counter((a, b) for a in expected(T[0]) for b in expected(T[1]))
                if got != want:
                    names = {id(r()): f"{c}" for r, c in census if r() is not None}
                    lab = lambda cnt: sorted((names.get(a, "?"), names.get(b, "?"), v) for (a, b), v in cnt.items())[:6]
                    missing, extra = want - got, got - want
                    kind = "missing_live_instance" if missing and not extra else (
                        "dead_or_foreign_instance_returned" if extra and not missing else "wrong_instances")
                    return fail(kind, f"op {n} {what}{T}: missing {lab(missing)} extra {lab(extra)}",
                                classes=sorted(classes), nontrivial=nontrivial_query, bucket=what + "_pair")
                return None
            res = list(q.evaluate())
            got = Counter(id(x) for x in res)
            del res
            want = expected(T)
            if got != want:
                extra, missing = got - want, want - got
                dup = {k: v for k, v in got.items() if v > 1}
                kind = "instance_returned_twice" if dup and not missing else ("missing_live_instance" if missing and not extra else
                                                                             ("dead_or_foreign_instance_returned" if extra and not missing else "wrong_instances"))
                names = {id(r()): f"{c}" for r, c in census if r() is not None}
                return fail(kind, f"op {n} {what}({T}): got {sorted((names.get(k, '?'), v) for k, v in got.items())} "
                                  f"want {sorted((names.get(k, '?'), v) for k, v in want.items())}",
                            classes=sorted(classes), nontrivial=nontrivial_query, bucket=what)
            return None

        for n, op in enumerate(ir["ops"]):
            k = op[0]
            try:
                if k == "create":
                    obj = S.CLASSES[op[1]](n=n)
                    live.append(obj)
                    census.append((weakref.ref(obj), op[1]))
                    classes.add(op[1])
                    del obj
                elif k == "drop" and live:
                    live.pop(op[1] % len(live))
                    pending_drop = True
                elif k == "gc":
                    gc.collect()
                    if pending_drop:
                        dropped_then_gc = True
                elif k == "query":
                    nontrivial_query = nontrivial_query or (dropped_then_gc and len(classes) >= 2)
                    classes.add("query_" + op[1])
                    q = an(entity(let(S.CLASSES[op[1]], None)))
                    bad = check(q, op[1], "query", n)
                    del q
                    if bad:
                        return bad
                elif k == "declare":
                    declared.append((an(entity(let(S.CLASSES[op[1]], None))), op[1]))
                    classes.add("declared_before_evaluation")
                elif k == "declare_pair":
                    from krrood.entity_query_language.entity import set_of

                    x, y = let(S.CLASSES[op[1]], None), let(S.CLASSES[op[2]], None)
                    declared.append(((an(set_of([x, y], x.n >= 0)), x, y), (op[1], op[2])))
                    classes.add("selected_variable_outside_the_condition")
                    del x, y
                elif k == "evaluate_declared" and declared:
                    q, T = declared.pop(op[1] % len(declared))
                    nontrivial_query = nontrivial_query or (dropped_then_gc and len(classes) >= 2)
                    bad = check(q, T, "evaluate_declared", n)
                    if bad:
                        return bad
                    evaluated.append((q, T))
                elif k == "requery" and evaluated:
                    q, T = evaluated[op[1] % len(evaluated)]
                    classes.add("requery")
                    bad = check(q, T, "requery", n)
                    if bad:
                        return bad
                elif k == "clear":
                    SymbolGraph().clear()
                    SymbolGraph()
                    # a new graph starts empty: earlier instances belong to the old one. Variables and queries that were
                    # declared before keep ranging over "the instances that currently exist", i.e. those of the new graph
                    census.clear()
                    live.clear()
                    gc.collect()
                    if declared or evaluated:
                        classes.add("query_declared_before_clear")
                    classes.add("clear")
            except Exception as exc:
                return crash(exc, f"op {n} {op}", classes=sorted(classes), nontrivial=nontrivial_query)
        return Outcome(nontrivial=nontrivial_query, classes=sorted(classes))


CHECK = C13()

"""C17 - class diagrams mirror the Python classes and derived views leave them intact.

IR: {"model": model IR (kverif/modelir.py), "subset": [class indexes in the order handed to ClassDiagram],
     "ops": [["sub", include_field_name] | ["associations"] | ["inheritance"] | ["out_edges", i] | ["neighbors", i]
             | ["sub_read_then_source", include_field_name, i]]}
"""
from __future__ import annotations

import datetime
from collections import Counter

from hypothesis import strategies as st

from .. import modelir as MI
from ..core import Check, Outcome, crash, fail


def edge_key(e):
    from krrood.class_diagrams.class_diagram import Association, Inheritance

    if isinstance(e, Inheritance):
        return ("inherits", e.source.clazz.__name__, e.target.clazz.__name__, "")
    if isinstance(e, Association):
        return ("assoc", e.source.clazz.__name__, e.target.clazz.__name__, e.field.field.name)
    return (type(e).__name__, e.source.clazz.__name__, e.target.clazz.__name__, "")


def snapshot(diagram):
    nodes = sorted(w.clazz.__name__ for w in diagram.wrapped_classes)
    edges = Counter(edge_key(e) for e in diagram._dependency_graph.edges())
    return nodes, edges


class C17(Check):
    id = "C17"
    title = "Class diagrams mirror the Python classes and derived views leave them intact"
    rule = (
        "Hypothesis draws a model of 1-6 dataclasses over the annotation grammar (T, Optional[T], List/Set/Sequence"
        "[T], Type[T], enum, datetime, classes outside the diagram; the module either uses the future import - all "
        "annotations are strings - or evaluates its annotations with quoted class references inside the typing "
        "wrappers; multi-level and multiple inheritance (a second, base-less base class; a parameterised generic base outside the diagram) with inherited association fields; underscore fields), a non-empty subset "
        "in any order handed to ClassDiagram, and a sequence of read-only operations (sub-diagram without "
        "inherited associations with/without field names, association/inheritance listings, out-edge and "
        "neighbour queries on the diagram, and reading a derived view before asking the source about the same class). Oracle: an independent reading of the model IR: one node per class, inheritance edges "
        "= direct-base pairs in the subset, association edges = public own and inherited fields whose endpoint is a "
        "class of the subset, per-field classification; the snapshot of nodes and labelled edges must be equal "
        "before and after every operation, the out-edges reported for a class must be its edges in the snapshot, and the sub-diagram must be the diagram minus the association edges "
        "whose key an ancestor defines. Non-trivial: the model has an inherited association and the subset has >= 2 "
        "classes. Distinct = distinct IR."
    )
    assumptions = [
        "for Type[T] fields the presence of an association edge is not asserted either way (the statement lists type-valued fields as a separate kind)",
        "one-to-one / one-to-many are asserted only where the annotation is unambiguous (dataclass endpoint => true, builtin endpoint => false)",
    ]
    budget = {
        "quick": dict(examples=250, shards=16, seconds=75),
        "thorough": dict(examples=10000, shards=16, seconds=1200),
    }

    def strategy(self, tier, exclude):
        @st.composite
        def ir(draw):
            model = draw(MI.model_ir(max_classes=6, grammar="diagram", allow_mixin=True, allow_generic=True))
            model["future"] = draw(st.booleans())
            n = len(model["classes"])
            k = draw(st.integers(1, n)) if draw(st.sampled_from([0, 0, 1])) else n
            subset = model["order"][:k]
            op = st.one_of(
                st.tuples(st.just("sub"), st.booleans()), st.tuples(st.just("sub"), st.booleans()),
                st.tuples(st.just("associations")), st.tuples(st.just("inheritance")),
                st.tuples(st.just("out_edges"), st.integers(0, 5)), st.tuples(st.just("neighbors"), st.integers(0, 5)),
                st.tuples(st.just("sub_read_then_source"), st.booleans(), st.integers(0, 5)),
            ).map(list)
            return {"model": model, "subset": subset, "ops": draw(st.lists(op, min_size=1, max_size=6))}

        return ir()

    def run(self, ir) -> Outcome:
        from krrood.class_diagrams.class_diagram import Association, ClassDiagram, Inheritance

        model, subset = ir["model"], ir["subset"]
        names = [c["name"] for c in model["classes"]]
        inset = set(subset)
        # ---- expected
        exp_inh = Counter()
        exp_assoc = Counter()
        type_assoc = set()
        inherited_assoc = False
        for i in subset:
            for b in MI.direct_bases(model, i):
                if b in inset:
                    exp_inh[("inherits", names[b], names[i], "")] += 1
            own = {f["name"] for f in model["classes"][i]["fields"]}
            for f in MI.all_fields(model, i):
                if f["name"].startswith("_"):
                    continue
                e = MI.endpoint(f["t"])
                if f["t"]["k"] == "type":
                    if f["t"]["c"] in inset:
                        type_assoc.add(("assoc", names[i], names[f["t"]["c"]], f["name"]))
                    continue
                if e["k"] == "ref" and e["c"] in inset:
                    exp_assoc[("assoc", names[i], names[e["c"]], f["name"])] += 1
                    if f["name"] not in own:
                        inherited_assoc = True
        classes_ = [f"classes{min(len(subset), 4)}"] + (["inherited_association"] if inherited_assoc else []) + (
            ["proper_subset"] if len(subset) < len(names) else []) + (
            ["annotations_as_strings"] if model.get("future", True) else ["evaluated_annotations_with_quoted_references"]) + (
            ["multiple_inheritance"] if any(c.get("base2") is not None for c in model["classes"]) else []) + (
            ["parameterised_generic_base"] if any(c.get("generic") for c in model["classes"]) else []) + sorted({"field_" + f["t"]["k"] for c in model["classes"] for f in c["fields"]})
        nontrivial = inherited_assoc and len(subset) >= 2

        def bad(kind, msg):
            return fail(kind, msg, classes=classes_, nontrivial=nontrivial, bucket=kind)

        try:
            mod, clss = MI.load(model)
        except Exception as exc:
            return Outcome(rejected=True)
        try:
            try:
                diagram = ClassDiagram([clss[i] for i in subset])
                nodes, edges = snapshot(diagram)
            except Exception as exc:
                return crash(exc, "building diagram", classes=classes_, nontrivial=nontrivial)
            if nodes != sorted(names[i] for i in subset):
                return bad("wrong_nodes", f"nodes {nodes}, expected {sorted(names[i] for i in subset)}")
            got_inh = Counter({k: v for k, v in edges.items() if k[0] == "inherits"})
            if got_inh != exp_inh:
                return bad("wrong_inheritance_edges", f"missing={sorted((exp_inh - got_inh))} extra={sorted((got_inh - exp_inh))}")
            got_assoc = Counter({k: v for k, v in edges.items() if k[0] == "assoc" and k not in type_assoc})
            if got_assoc != exp_assoc:
                kind = "missing_association_edge" if (exp_assoc - got_assoc) and not (got_assoc - exp_assoc) else (
                    "extra_association_edge" if (got_assoc - exp_assoc) and not (exp_assoc - got_assoc) else "wrong_association_edges")
                return bad(kind, f"missing={sorted((exp_assoc - got_assoc))} extra={sorted((got_assoc - exp_assoc))}")
            other = [k for k in edges if k[0] not in ("inherits", "assoc")]
            if other:
                return bad("unexpected_edge_kind", str(other))
            # ---- field classification
            for i in subset:
                w = diagram.get_wrapped_class(clss[i])
                public = [f for f in MI.all_fields(model, i) if not f["name"].startswith("_")]
                got_names = [wf.field.name for wf in w.fields]
                if sorted(got_names) != sorted(f["name"] for f in public):
                    return bad("wrong_fields", f"{names[i]}: fields {got_names}, expected {[f['name'] for f in public]}")
                by_name = {wf.field.name: wf for wf in w.fields}
                for f in public:
                    wf, c = by_name[f["name"]], MI.classify(f["t"])
                    e = c["endpoint"]
                    want_endpoint = {"int": int, "float": float, "str": str, "bool": bool, "datetime": datetime.datetime}.get(e["k"])
                    if e["k"] == "enum":
                        want_endpoint = mod.Color
                    elif e["k"] in ("ref", "type"):
                        want_endpoint = clss[e["c"]]
                    elif e["k"] == "ext":
                        want_endpoint = mod.Outside
                    checks = [("is_optional", c["is_optional"]), ("is_container", c["is_container"]), ("is_type_type", c["is_type_type"]),
                              ("is_builtin_type", c["is_builtin"]), ("type_endpoint", want_endpoint)]
                    if not c["is_container"]:
                        checks.append(("is_enum", c["is_enum"]))
                    if e["k"] in ("ref", "ext") and f["t"]["k"] != "type":
                        checks.append(("is_one_to_one_relationship", not c["is_container"]))
                        checks.append(("is_one_to_many_relationship", c["is_container"]))
                    elif c["is_builtin"]:
                        checks += [("is_one_to_one_relationship", False), ("is_one_to_many_relationship", False)]
                    for attr, want in checks:
                        try:
                            got = getattr(wf, attr)
                        except Exception as exc:
                            return crash(exc, f"{names[i]}.{f['name']}.{attr} ({MI.annotation(f['t'], names)})", classes=classes_, nontrivial=nontrivial)
                        if got != want and not (attr == "type_endpoint" and got is want):
                            return bad("wrong_field_classification", f"{names[i]}.{f['name']}: {MI.annotation(f['t'], names)} -> {attr}={got!r}, expected {want!r}")
            # ---- read-only operations
            for n_op, op in enumerate(ir["ops"]):
                try:
                    if op[0] == "sub":
                        sub = diagram.to_subdiagram_without_inherited_associations(op[1])
                        snodes, sedges = snapshot(sub)
                        # expected: associations whose key no ancestor (through inheritance edges of the diagram) defines
                        anc = {i: [a for a in self._diagram_ancestors(model, i, inset)] for i in subset}
                        key = (lambda k: (k[2], k[3])) if op[1] else (lambda k: (k[2],))
                        want = Counter()
                        all_assoc = Counter({k: v for k, v in edges.items() if k[0] == "assoc"})
                        keys_by_src = {}
                        for k in all_assoc:
                            keys_by_src.setdefault(k[1], set()).add(key(k))
                        for k, v in all_assoc.items():
                            src = names.index(k[1])
                            inherited = set()
                            for a in anc[src]:
                                inherited |= keys_by_src.get(names[a], set())
                            if key(k) not in inherited:
                                want[k] = v
                        got_sub = Counter({k: v for k, v in sedges.items() if k[0] == "assoc"})
                        if snodes != nodes or Counter({k: v for k, v in sedges.items() if k[0] == "inherits"}) != got_inh:
                            return bad("subdiagram_lost_nodes_or_inheritance", f"op {n_op}")
                        if got_sub != want:
                            return bad("wrong_subdiagram", f"op {n_op} {op}: missing={sorted(want - got_sub)} extra={sorted(got_sub - want)}")
                    elif op[0] == "associations":
                        list(diagram.associations)
                    elif op[0] == "inheritance":
                        list(diagram.inheritance_relations)
                    elif op[0] in ("out_edges", "sub_read_then_source"):
                        c = clss[subset[op[-1] % len(subset)]]
                        if op[0] == "sub_read_then_source":
                            # the derived view is read first, the source is asked afterwards
                            sub = diagram.to_subdiagram_without_inherited_associations(op[1])
                            sub.get_out_edges(c)
                            sub.get_outgoing_neighbors_with_relation_type(c, Association)
                            list(sub.associations)
                        got_out = Counter(edge_key(e) for e in diagram.get_out_edges(c))
                        want_out = Counter({k: v for k, v in edges.items() if k[1] == c.__name__})
                        if got_out != want_out:
                            return bad("wrong_out_edges", f"op {n_op} {op}: get_out_edges({c.__name__}) missing={sorted(want_out - got_out)} extra={sorted(got_out - want_out)}")
                    elif op[0] == "neighbors":
                        c = clss[subset[op[1] % len(subset)]]
                        diagram.get_neighbors_with_relation_type(c, Association)
                        diagram.get_outgoing_neighbors_with_relation_type(c, Inheritance)
                        diagram.get_incoming_neighbors_with_relation_type(c, Association)
                except Exception as exc:
                    return crash(exc, f"op {n_op} {op}", classes=classes_, nontrivial=nontrivial)
                after = snapshot(diagram)
                if after != (nodes, edges):
                    lost = edges - after[1]
                    return bad("view_changed_source_diagram", f"after op {n_op} {op}: lost edges {sorted(lost)[:5]} gained {sorted(after[1] - edges)[:5]}")
            return Outcome(nontrivial=nontrivial, classes=classes_)
        finally:
            MI.unload(mod)

    @staticmethod
    def _diagram_ancestors(model, i, inset):
        """ancestors reachable through inheritance edges that exist in the diagram (direct-base pairs in the subset)"""
        out = []
        for b in MI.direct_bases(model, i):
            if b in inset:
                for a in [b] + C17._diagram_ancestors(model, b, inset):
                    if a not in out:
                        out.append(a)
        return out


CHECK = C17()

"""C11 - pattern matching is equivalent to the explicit query it abbreviates.

IR: {"parts":[{"cls","tag","label","sub","links"}], "boxes":[{"cls","size","name","main","spare","parts","sizes"}],
     "domain":[["box",i]|["part",j]|["crate",0]], "root":{"type","attrs":{attr:P}}, "root_selected":bool}
P:  {"k":"lit","v"}                      literal on a scalar attribute            -> equality
    {"k":"obj","part":j}                 literal object on a reference attribute  -> identity/equality
    {"k":"member","part":j}              literal object on the `parts` collection -> membership
    {"k":"member_int","v":n}             literal on the `sizes` collection        -> membership
    {"k":"iter","v":[..]}                iterable literal on a scalar attribute   -> attribute in it
    {"k":"match","type":T,"attrs":{..},"select":bool}    nested pattern on a reference or on the collection
    {"k":"any","parts":[j..],"select":bool} / {"k":"all","parts":[j..],"select":bool}   on the collection
"""
from __future__ import annotations

from hypothesis import strategies as st

from ..core import Check, Outcome, crash, fail

PART_SCALARS = {"tag": st.integers(0, 1), "label": st.sampled_from(["", "a"])}
BOX_SCALARS = {"size": st.integers(0, 1), "name": st.sampled_from(["", "x"])}


def _walk(attrs, depth=1):
    for a, p in attrs.items():
        yield a, p, depth
        if p["k"] == "match":
            yield from _walk(p["attrs"], depth + 1)


def _no_constraint(attrs):
    """a nested pattern whose type is the declared type and whose attributes constrain nothing is no condition at all"""
    return all(p["k"] == "match" and p["type"] == "Part" and not p.get("select") and _no_constraint(p["attrs"]) for p in attrs.values())


class C11(Check):
    id = "C11"
    title = "Pattern matching is equivalent to the explicit query it abbreviates"
    rule = (
        "Hypothesis draws a Symbol world (parts with an optional sub-part, boxes with scalar, reference, optional "
        "reference, collection-of-Symbol and collection-of-int attributes, a subclass on both levels; value-equal "
        "twins frequent), a mixed-type domain of 0-6 elements and a pattern of depth <=3 combining literals, "
        "iterable literals, nested match(T)(...), match_any/match_all over collections and their select forms "
        "(optionally selecting the root with entity_selection). Oracle: a plain Python predicate per the statement "
        "(literal = equality, membership on collections; iterable literal = attribute in it; nested match = "
        "isinstance and nested, on a collection: some element; match_any = non-empty intersection; match_all = same "
        "set of elements); the set of matched domain elements (or of selected rows) must be equal in both "
        "directions. Non-trivial: some domain element of the type matches and some does not. Distinct = distinct IR."
    )
    assumptions = [
        "nested patterns are not placed on attributes that are None in the data (the explicit query raises there as well)",
        "match_any/match_all are given non-empty iterables (entity_matching tests the truthiness of its argument, so an empty one is not distinguishable from 'no pattern')",
        "a select on a collection may report the collection itself or an element satisfying the nested pattern (both are 'consistent with the matched element')",
        "a nested pattern that constrains nothing (match(T)() or match(T)(sub=match(T)()) with T the declared type) is not placed on a collection (read as 'no constraint' by the engine)",
        "results are compared as sets of identities (multiplicity of rows is not part of the statement)",
        "for select forms on a collection every element satisfying the nested pattern is an admissible selected value",
    ]
    budget = {
        "quick": dict(examples=300, shards=16, seconds=75),
        "thorough": dict(examples=12000, shards=16, seconds=1200),
    }

    def setup_worker(self):
        from krrood.entity_query_language.symbol_graph import SymbolGraph

        from ..models import match_world  # noqa: F401

        SymbolGraph().clear()
        SymbolGraph()

    # ------------------------------------------------------------------------------------------
    def strategy(self, tier, exclude):
        @st.composite
        def ir(draw):
            n_parts = draw(st.integers(1, 5))
            sub_total = draw(st.booleans())
            parts = []
            for i in range(n_parts):
                sub = draw(st.integers(0, n_parts - 1)) if sub_total else draw(st.one_of(st.none(), st.integers(0, n_parts - 1)))
                parts.append(dict(cls=draw(st.sampled_from(["Part", "Part", "SpecialPart"])), tag=draw(PART_SCALARS["tag"]),
                                  label=draw(PART_SCALARS["label"]), sub=sub,
                                  links=draw(st.lists(st.integers(0, n_parts - 1), max_size=3))))
            n_boxes = draw(st.sampled_from([2, 3, 4, 4, 5]))
            spare_total = draw(st.booleans())
            boxes = []
            for i in range(n_boxes):
                boxes.append(dict(
                    cls=draw(st.sampled_from(["Box", "Box", "BigBox"])), size=draw(BOX_SCALARS["size"]), name=draw(BOX_SCALARS["name"]),
                    main=draw(st.integers(0, n_parts - 1)),
                    spare=draw(st.integers(0, n_parts - 1)) if spare_total else draw(st.one_of(st.none(), st.integers(0, n_parts - 1))),
                    parts=draw(st.lists(st.integers(0, n_parts - 1), max_size=3)),
                    sizes=draw(st.lists(st.integers(0, 2), max_size=3))))
            pool = [["box", i] for i in range(n_boxes)] + [["part", 0], ["crate", 0]]
            domain = draw(st.one_of(st.lists(st.sampled_from(pool), max_size=6, unique_by=lambda x: tuple(x)),
                                    st.permutations(pool)))

            def part_pattern(depth, on_collection=False, allow_select=True):
                attrs = {}
                names = draw(st.lists(st.sampled_from(["tag", "label", "links", "sub"] if (sub_total and depth > 0) else ["tag", "label", "links"]),
                                      max_size=2, unique=True))
                for a in names:
                    if a == "sub":
                        attrs[a] = nested(depth - 1, ref=True, allow_select=allow_select)
                    elif a == "links":
                        # a collection below a nested pattern; inner parts are shared by several boxes
                        k = draw(st.sampled_from(["member", "any", "all"]))
                        if k == "member":
                            attrs[a] = dict(k="member", part=draw(st.integers(0, n_parts - 1)))
                        else:
                            attrs[a] = dict(k=k, parts=draw(st.lists(st.integers(0, n_parts - 1), min_size=1, max_size=3)),
                                            select=bool(allow_select and draw(st.integers(0, 3)) == 0))
                    elif draw(st.integers(0, 3)) == 0:
                        attrs[a] = dict(k="iter", v=draw(st.lists(PART_SCALARS[a], max_size=3)))
                    else:
                        attrs[a] = dict(k="lit", v=draw(PART_SCALARS[a]))
                return attrs

            def nested(depth, ref, allow_select=True, on_collection=False):
                t = draw(st.sampled_from(["Part", "Part", "SpecialPart"]))
                attrs = part_pattern(depth, allow_select=allow_select)
                if on_collection and t == "Part" and _no_constraint(attrs):
                    attrs = {"tag": dict(k="lit", v=draw(PART_SCALARS["tag"]))}
                return dict(k="match", type=t, attrs=attrs, select=bool(allow_select and draw(st.integers(0, 3)) == 0))

            attrs = {}
            names = draw(st.lists(st.sampled_from(["size", "name", "main", "spare", "parts", "parts", "sizes"]), min_size=1, max_size=2, unique=True))
            for a in names:
                if a in ("size", "name"):
                    if draw(st.integers(0, 3)) == 0:
                        attrs[a] = dict(k="iter", v=draw(st.lists(BOX_SCALARS[a], max_size=3)))
                    else:
                        attrs[a] = dict(k="lit", v=draw(BOX_SCALARS[a]))
                elif a == "main" or (a == "spare" and spare_total):
                    if sub_total and draw(st.integers(0, 5)) == 0:
                        # a select three levels below the root: root -> match -> match -> select
                        leaf = dict(k="match", type=draw(st.sampled_from(["Part", "SpecialPart"])), attrs=part_pattern(0), select=True)
                        mid = dict(k="match", type="Part", attrs={"sub": leaf}, select=False)
                        attrs[a] = dict(k="match", type="Part", attrs={"sub": mid}, select=draw(st.integers(0, 3)) == 0)
                    else:
                        attrs[a] = nested(2, ref=True) if draw(st.booleans()) else dict(k="obj", part=draw(st.integers(0, n_parts - 1)))
                elif a == "spare":
                    attrs[a] = dict(k="obj", part=draw(st.integers(0, n_parts - 1)))
                elif a == "parts":
                    k = draw(st.sampled_from(["member", "match", "any", "all"]))
                    if k == "member":
                        attrs[a] = dict(k="member", part=draw(st.integers(0, n_parts - 1)))
                    elif k == "match":
                        attrs[a] = nested(2, ref=False, on_collection=True)
                    else:
                        attrs[a] = dict(k=k, parts=draw(st.lists(st.integers(0, n_parts - 1), min_size=1, max_size=3)),
                                        select=draw(st.integers(0, 3)) == 0)
                else:
                    attrs[a] = dict(k="member_int", v=draw(st.integers(0, 2)))
            return dict(parts=parts, boxes=boxes, domain=domain, root=dict(type=draw(st.sampled_from(["Box", "Box", "Box", "BigBox"])), attrs=attrs),
                        root_selected=draw(st.integers(0, 3)) == 0)

        return ir()

    # ------------------------------------------------------------------------------------------
    def build(self, ir):
        from ..models import match_world as M

        parts = [M.TYPES[p["cls"]](tag=p["tag"], label=p["label"]) for p in ir["parts"]]
        for o, p in zip(parts, ir["parts"]):
            o.sub = None if p["sub"] is None else parts[p["sub"]]
            o.links = [parts[j] for j in p.get("links", [])]
            o._label = ("part", parts.index(o))
        boxes = []
        for i, b in enumerate(ir["boxes"]):
            o = M.TYPES[b["cls"]](size=b["size"], name=b["name"], main=parts[b["main"]],
                                  spare=None if b["spare"] is None else parts[b["spare"]],
                                  parts=[parts[j] for j in b["parts"]], sizes=list(b["sizes"]))
            o._label = ("box", i)
            boxes.append(o)
        crate = M.Crate(size=1)
        crate._label = ("crate", 0)
        dom = [boxes[i] if k == "box" else (parts[i] if k == "part" else crate) for k, i in ir["domain"]]
        return parts, boxes, dom

    def oracle(self, ir, parts, boxes, dom):
        """rows: set of tuples (root label?, selected values...) following the order in which selects are written"""
        from ..models import match_world as M

        def matches(obj, pat_type, attrs):
            """list of selection tuples; every component is the frozenset of admissible reported values for one select
            (for a select on a collection: the collection itself or any element satisfying the nested pattern)"""
            if not isinstance(obj, M.TYPES[pat_type]):
                return []
            combos = [()]
            for a, p in attrs.items():
                val = getattr(obj, a)
                k = p["k"]
                coll = ("list", obj._label, a)
                if k == "lit":
                    ok = [()] if val == p["v"] else []
                elif k == "obj":
                    ok = [()] if val is parts[p["part"]] else []
                elif k == "member":
                    ok = [()] if any(x is parts[p["part"]] for x in val) else []
                elif k == "member_int":
                    ok = [()] if p["v"] in val else []
                elif k == "iter":
                    ok = [()] if val in p["v"] else []
                elif k == "match":
                    if isinstance(val, list):
                        ok = []
                        for el in val:
                            for sel in matches(el, p["type"], p["attrs"]):
                                ok.append(((frozenset([el._label, coll]),) if p["select"] else ()) + sel)
                    else:
                        ok = [((frozenset([val._label]),) if p["select"] else ()) + sel for sel in matches(val, p["type"], p["attrs"])]
                elif k == "any":
                    wanted = [parts[j] for j in p["parts"]]
                    common = [el for el in val if any(el is w for w in wanted)]
                    if p["select"]:
                        ok = [(frozenset([el._label, coll]),) for el in common]
                    else:
                        ok = [()] if common else []
                elif k == "all":
                    wanted = [parts[j] for j in p["parts"]]
                    same = {id(x) for x in val} == {id(w) for w in wanted}
                    if p["select"]:
                        ok = [(frozenset([el._label for el in val] + [coll]),)] if same else []
                    else:
                        ok = [()] if same else []
                else:
                    raise ValueError(k)
                combos = [c + o for c in combos for o in ok]
                if not combos:
                    return []
            return combos

        rows, matched = {}, set()
        for obj in dom:
            for sel in matches(obj, ir["root"]["type"], ir["root"]["attrs"]):
                matched.add(obj._label)
                rows.setdefault(obj._label, []).append(((frozenset([obj._label]),) if ir["root_selected"] else ()) + sel)
        return rows, matched

    def run(self, ir) -> Outcome:
        from krrood.entity_query_language import match as Mt
        from krrood.entity_query_language.quantify_entity import an
        from krrood.entity_query_language.symbolic import UnificationDict

        from ..models import match_world as M

        parts, boxes, dom = self.build(ir)
        selects = []  # in the order they are written

        def to_pattern(p):
            k = p["k"]
            if k in ("lit", "iter"):
                return p["v"]
            if k in ("obj", "member"):
                return parts[p["part"]]
            if k == "member_int":
                return p["v"]
            if k == "match":
                m = (Mt.select if p["select"] else Mt.match)(M.TYPES[p["type"]])
                if p["select"]:
                    selects.append(m)
                return m(**{a: to_pattern(q) for a, q in p["attrs"].items()})
            if k in ("any", "all"):
                fn = {("any", False): Mt.match_any, ("any", True): Mt.select_any, ("all", False): Mt.match_all, ("all", True): Mt.select_all}[(k, p["select"])]
                m = fn([parts[j] for j in p["parts"]])
                if p["select"]:
                    selects.append(m)
                return m
            raise ValueError(k)

        n_sel = sum(1 for _, p, _ in _walk(ir["root"]["attrs"]) if p.get("select")) + int(ir["root_selected"])
        kinds = sorted({p["k"] + ("_select" if p.get("select") else "") for _, p, _ in _walk(ir["root"]["attrs"])})
        depth = max([d for _, _, d in _walk(ir["root"]["attrs"])] or [0])
        classes = kinds + [f"depth{depth}", f"selects{min(n_sel, 3)}"]
        sig = [(b["cls"], b["size"], b["name"], tuple(b["parts"])) for b in ir["boxes"]]
        if len(set(sig)) < len(sig):
            classes.append("twin_boxes")
        want_rows, matched = self.oracle(ir, parts, boxes, dom)
        typed = [o for o in dom if isinstance(o, M.TYPES[ir["root"]["type"]])]
        nontrivial = bool(matched) and len(matched) < len({o._label for o in typed})
        try:
            root_fn = Mt.entity_selection if ir["root_selected"] else Mt.entity_matching
            root = root_fn(M.TYPES[ir["root"]["type"]], dom)
            if ir["root_selected"]:
                selects.append(root)
            root = root(**{a: to_pattern(p) for a, p in ir["root"]["attrs"].items()})
            if ir["root_selected"]:
                selects.remove(root)
                selects.insert(0, root)
            results = list(an(root).evaluate())
        except Exception as exc:
            return crash(exc, "pattern query", classes=classes, nontrivial=nontrivial)

        lists = {}
        for o in parts:
            lists[id(o.links)] = ("list", o._label, "links")
        for b in boxes:
            lists[id(b.parts)] = ("list", b._label, "parts")
            lists[id(b.sizes)] = ("list", b._label, "sizes")

        def lab(v):
            if isinstance(v, list):
                return lists.get(id(v)) or next((lb for o in boxes for (l2, lb) in ((o.parts, ("list", o._label, "parts")),)
                                                 if len(l2) == len(v) and all(x is y for x, y in zip(l2, v))), ("list", "?", repr(v)))
            return getattr(v, "_label", ("value", repr(v)))

        try:
            if n_sel == 0:
                got = {(lab(r),) for r in results}
            elif n_sel == 1:
                # one select on a collection makes the engine select the collection and its flattened element: a dict
                got = {(lab(r[selects[0]] if isinstance(r, UnificationDict) else r),) for r in results}
            else:
                got = {tuple(lab(r[s]) for s in selects) for r in results}
        except Exception as exc:
            return crash(exc, "reading results", classes=classes, nontrivial=nontrivial)

        def fail_(kind, msg):
            return fail(kind, msg, classes=classes, nontrivial=nontrivial, bucket=",".join(kinds))

        if n_sel == 0:
            want = {(m,) for m in matched}
            if got != want:
                extra, missing = got - want, want - got
                kind = "extra_match" if extra and not missing else ("missing_match" if missing and not extra else "different_matches")
                return fail_(kind, f"extra={sorted(extra)[:4]} missing={sorted(missing)[:4]}")
        else:
            def admissible(row, want_tuple):
                return len(row) == len(want_tuple) and all(x in adm for x, adm in zip(row, want_tuple))

            all_want = [w for ws in want_rows.values() for w in ws]
            for row in got:
                if not any(admissible(row, w) for w in all_want):
                    return fail_("inconsistent_selected_row", f"row {row} is not the selection of any matching element; "
                                                              f"admissible: {[tuple(sorted(map(str, a)) for a in w) for w in all_want][:3]}")
            for root_label, ws in want_rows.items():
                if not any(admissible(row, w) for row in got for w in ws):
                    return fail_("missing_match", f"no result row for matching element {root_label}; got {sorted(map(str, got))[:4]}")
        return Outcome(nontrivial=nontrivial, classes=classes)


CHECK = C11()

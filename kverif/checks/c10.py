"""C10 - queries are lazy: building evaluates nothing, consuming pulls only what it needs."""
from __future__ import annotations

import itertools

from hypothesis import strategies as st

from ..core import Check, Outcome, crash, fail
from ..eql import gen, lang
from ..eql.features import query_classes


class PullBudgetExceeded(Exception):
    pass


def _hooks(LOG):
    from dataclasses import dataclass

    from krrood.entity_query_language.predicate import Predicate, symbolic_function

    @dataclass(eq=False)
    class Bigger(Predicate):
        p: int
        q: int

        def __call__(self):
            LOG.append(("pred", "Bigger", self.p, self.q))
            return self.p > self.q

    @symbolic_function
    def sf_le(p, q):
        LOG.append(("symfn", "sf_le", p, q))
        return p <= q

    @symbolic_function
    def sf_half(n):
        LOG.append(("symfn", "sf_half", n))
        return n // 2

    return dict(build_pred=lambda name, args: Bigger(*args), build_symfn=lambda name, kw: sf_le(**kw),
                build_symterm=lambda name, arg: sf_half(arg))


class C10(Check):
    id = "C10"
    title = "Queries are lazy: building evaluates nothing, consuming pulls only what it needs"
    rule = (
        "Hypothesis draws query IRs (comparisons, membership, indexing, calls, a Predicate, a symbolic function, "
        "and_/or_/not_, flatten, entity/set_of over variables and derived expressions) over an instrumented world: "
        "every attribute is a logging property, methods/predicates/symbolic functions log, every domain is a "
        "logging one-shot generator; k in 0..#results results are pulled. Oracle (event log): (1) the log is empty "
        "after construction (also for a pattern-matching query whose domain and keyword-argument variable are generators); (2) the first k results equal the first k of a full run of a fresh identical query; "
        "(3) the k-run's log equals the full run's log cut at its k-th yield; (4) single-variable queries pull at "
        "most index(k-th satisfying element)+2 domain elements; (4b) a selected variable that occurs in no condition is "
        "pulled at most up to the furthest element the first k results mention, +2 (while no value of it repeats among them); (4c) for_all over a generator pulls the universal variable exactly up to the value that decides the answer; (5) a single-variable query over an unbounded "
        "(cyclic) generator domain delivers its first result within one cycle of pulls. Non-trivial: 0 < k < #results and the domains have elements beyond what k results "
        "need. Distinct = distinct IR."
    )
    assumptions = [
        "Python protocol probes (hasattr(x,'__iter__'), bool(x) on a literal) are not counted as reads of user data",
        "literal containers are lists, not generators (as documented)",
        "one element of look-ahead per domain is tolerated in the absolute bound",
        "evaluation is deterministic for a fixed query (PYTHONHASHSEED=0), so two runs of identical queries have identical logs",
    ]
    budget = {
        "quick": dict(examples=300, shards=16, seconds=75),
        "thorough": dict(examples=12000, shards=16, seconds=1200),
    }

    def setup_worker(self):
        from krrood.entity_query_language.symbol_graph import SymbolGraph

        from ..models import match_world  # noqa: F401  (Symbol classes for the pattern-matching form)

        SymbolGraph().clear()
        SymbolGraph()

    @staticmethod
    def match_query_built_lazily(n_parts):
        """entity_matching(Part, <generator>)(sub=<variable over a generator>): building the query must not advance
        either generator; returns (pulls at construction, results pulled afterwards are sane)"""
        from krrood.entity_query_language.entity import let
        from krrood.entity_query_language.match import entity_matching
        from krrood.entity_query_language.quantify_entity import an

        from ..models.match_world import Part

        parts = [Part(tag=i, label=str(i)) for i in range(n_parts)]
        for i, p in enumerate(parts):
            p.sub = parts[(i + 1) % n_parts]
        pulls = []

        def gen(tag, values):
            for v in values:
                pulls.append(tag)
                yield v

        admissible = [parts[:1], parts[1: max(2, n_parts // 2)]]  # the variable ranges over lists of admissible values
        wanted = let(list, gen("kwarg", admissible))
        query = an(entity_matching(Part, gen("domain", parts))(sub=wanted))
        at_construction = list(pulls)
        got = {id(r) for r in query.evaluate()}
        want = {id(p) for p in parts if any(p.sub is w for lst in admissible for w in lst)}
        return at_construction, got == want

    @staticmethod
    def forall_consumption(world):
        """an(entity(x, for_all(u, u.b >= x.a))) with u over a one-shot generator: the universal domain is consumed
        exactly up to the value at which no candidate for x is left. Returns (pulled, needed, results are right)."""
        from krrood.entity_query_language.entity import entity, for_all, let
        from krrood.entity_query_language.quantify_entity import an

        from ..models.eql_world import Item

        xs = [Item(a=o["a"]) for o in world["objs"]]
        us = [Item(b=o["b"]) for o in reversed(world["objs"])]
        pulled = [0]

        def gen():
            for u in us:
                pulled[0] += 1
                yield u

        x, u = let(Item, xs), let(Item, gen())
        got = {id(r) for r in an(entity(x, for_all(u, u.b >= x.a))).evaluate()}
        candidates, needed = list(xs), 0
        for i, uu in enumerate(us):
            needed = i + 1
            candidates = [c for c in candidates if uu.b >= c.a]
            if not candidates:
                break
        return pulled[0], needed, got == {id(c) for c in candidates}

    def cfg(self, tier):
        c = gen.Cfg(allow_quantifiers=False, allow_subquery=False, allow_noise=False, min_dom=1, allow_empty_domain=False)
        c.max_vars = 3 if tier == "thorough" else 2
        return c

    def strategy(self, tier, exclude):
        # a third of the queries carry a result count constraint that is always satisfied: it must not cost laziness
        constraint = st.sampled_from([None, None, ["atleast", 0], ["atmost", 10 ** 6]])
        return st.tuples(gen.query_ir(self.cfg(tier)), st.integers(0, 6), st.booleans(), constraint).map(
            lambda t: dict(q=dict(t[0], **({"constraint": t[3]} if t[3] else {})), k=t[1], unbounded=t[2]))

    # ------------------------------------------------------------------------------------------
    def _run(self, ir, k, unbounded_var=None, budget=None):
        """build a fresh query over fresh objects; returns (log_after_build, results, marks, log, pulls)"""
        from ..models import eql_logged as M

        M.LOG.clear()
        objs = M.build_world(ir["world"])
        pulls = {}

        def domain_factory(i, values):
            def g():
                seq = itertools.cycle(values) if i == unbounded_var else iter(values)
                for pos, v in enumerate(seq):
                    if budget is not None and pos >= budget:
                        raise PullBudgetExceeded(f"variable v{i}: more than {budget} elements pulled")
                    pulls[i] = pos + 1
                    M.LOG.append(("pull", i, pos))
                    yield v
            return g()

        b = lang.Builder(ir, objs, item_classes=M.CLASSES, hooks=_hooks(M.LOG), domain_factory=domain_factory)
        q = b.query()
        after_build = list(M.LOG)
        norm = lambda v: ("obj", v._label) if isinstance(v, M.LItem) else (
            ("list", tuple(norm(x) for x in v)) if isinstance(v, list) else (type(v).__name__, repr(v)))
        results, marks = [], []
        it = q.evaluate()
        while k is None or len(results) < k:
            try:
                r = next(it)
            except StopIteration:
                break
            results.append(b.row(r, norm))
            marks.append(len(M.LOG))
        if hasattr(it, "close"):
            it.close()
        return after_build, results, marks, list(M.LOG), dict(pulls)

    def run(self, spec) -> Outcome:
        ir, k = spec["q"], spec["k"]
        classes = query_classes(ir)
        try:
            b0, full, fmarks, flog, fpulls = self._run(ir, None)
        except Exception as exc:
            return Outcome(rejected=True)  # evaluation errors are C01's subject, not laziness
        n = len(full)
        k = min(k, n)
        try:
            b1, part, pmarks, plog, ppulls = self._run(ir, k)
        except Exception as exc:
            return crash(exc, "partial run", classes=classes)
        total_dom = sum(len(v["dom"]) for i, v in enumerate(ir["vars"]) if ("var", i) in lang.query_refs(ir))
        nontrivial = 0 < k < n and sum(ppulls.values()) < sum(fpulls.values())
        classes.append(f"k{min(k, 3)}_of_{min(n, 4)}")
        out = Outcome(nontrivial=nontrivial, classes=classes)

        def bad(kind, msg):
            return fail(kind, msg, classes=classes, nontrivial=nontrivial)

        if b0 or b1:
            return bad("evaluated_at_construction", f"log after construction: {(b0 or b1)[:5]}")
        try:
            pulled, sane = self.match_query_built_lazily(max(2, len(ir["world"]["objs"])))
        except Exception as exc:
            return crash(exc, "pattern-matching query over generators", classes=classes)
        if pulled:
            return bad("evaluated_at_construction", f"building entity_matching(T, generator)(attr=variable over a generator) pulled {pulled}")
        if not sane:
            return bad("not_a_prefix", "the pattern-matching query over generator domains returned wrong elements")
        try:
            pulled, needed, right = self.forall_consumption(ir["world"])
        except Exception as exc:
            return crash(exc, "for_all over a generator", classes=classes)
        if not right:
            return Outcome(rejected=True)  # a wrong for_all answer is C01's subject
        if pulled > needed:
            return bad("pulled_too_much", f"for_all decided after {needed} values of the universal variable but pulled {pulled}")
        if part != full[:k]:
            return bad("not_a_prefix", f"first {k} results {part} vs full run {full[:k]}")
        cut = fmarks[k - 1] if k > 0 else 0
        if k > 0 and plog[:pmarks[-1]] != flog[:cut]:
            return bad("log_not_a_prefix", f"k={k}: partial log has {pmarks[-1]} events at its last yield, full run {cut}; "
                                           f"first difference at {next((i for i, (a, b) in enumerate(zip(plog, flog)) if a != b), None)}")
        if k == 0 and plog:
            return bad("evaluated_without_pull", f"no result was pulled but the log has {plog[:5]}")
        refs = [r for r in lang.query_refs(ir) if r[0] == "var"]
        if len(refs) == 1 and not ir["dvars"] and k > 0 and ir["sel"]["terms"] and all(t["t"] == "var" for t in ir["sel"]["terms"]):
            i = refs[0][1]
            # index of the k-th satisfying element in domain order
            dom = ir["vars"][i]["dom"]
            want = [part[j][0][1] for j in range(k)]
            seen, idx = 0, None
            for pos, o in enumerate(dom):
                if seen < k and o == want[seen]:
                    seen += 1
                    if seen == k:
                        idx = pos
                        break
            if idx is not None and ppulls.get(i, 0) > idx + 2:
                return bad("pulled_too_much", f"{k} results need {idx + 1} domain elements, {ppulls.get(i)} were pulled")
        # a selected variable that occurs nowhere else cannot be constrained by anything: the first k results need
        # its domain only up to the furthest element they mention
        if k > 0 and ir["sel"]["terms"] and all(t["t"] == "var" for t in ir["sel"]["terms"]):
            elsewhere = set()
            for c in ir["conds"]:
                elsewhere |= lang.close_refs(ir, lang.cond_refs(c))
            for col, t in enumerate(ir["sel"]["terms"]):
                i = t["i"]
                v = ir["vars"][i]
                if ("var", i) in elsewhere or v.get("sub") is not None or v.get("plain") or v.get("local"):
                    continue
                if sum(1 for t2 in ir["sel"]["terms"] if t2["i"] == i) != 1:
                    continue
                dom = v["dom"]
                column = [part[j][col] for j in range(k)]
                if len(set(column)) != len(column):
                    continue  # a value came back: the variable is an inner loop that was (rightly) exhausted and restarted
                furthest = max(dom.index(part[j][col][1]) for j in range(k) if part[j][col][0] == "obj")
                out.classes.append("free_selected_variable")
                if ppulls.get(i, 0) > furthest + 2:
                    return bad("free_variable_pulled_too_much",
                               f"the first {k} results mention v{i} up to domain position {furthest}, {ppulls.get(i)} elements were pulled")
        # unbounded domain: the first result must arrive within a pull budget
        if spec.get("unbounded") and n >= 1 and len(refs) == 1 and not ir["dvars"]:
            i = sorted(refs)[0][1]
            budget = 2 * len(ir["vars"][i]["dom"]) + 2  # one full cycle reaches a satisfying element
            try:
                _, res, _, _, _ = self._run(ir, 1, unbounded_var=i, budget=budget)
                if len(res) < 1:
                    return bad("no_result_from_unbounded_domain", "query over an unbounded generator yielded nothing")
                out.classes.append("unbounded_checked")
            except PullBudgetExceeded as exc:
                return bad("unbounded_domain_drained", str(exc))
            except Exception:
                pass
        return out


CHECK = C10()

"""C04 - object -> DAO -> object round trip preserves structure, types and aliasing.

IR: {"model": model IR (orm grammar + alternative mapping + custom type, uid field on every root class),
     "graphs": [graph IR...], "shared_state": bool}
"""
from __future__ import annotations

from hypothesis import strategies as st

from .. import modelir as MI
from .. import ormgraph as G
from ..core import Check, Outcome, crash, fail


def model_features(model):
    f = set()
    for c in model["classes"]:
        for fl in c["fields"]:
            if fl["t"]["k"] == "set" and fl["t"]["of"]["k"] == "ref" and not fl["name"].startswith("_"):
                f.add("set_collection_of_mapped_class")
    return f


@st.composite
def model_and_graphs(draw, n_graphs, max_nodes, sql=False, **model_kw):
    model = draw(MI.model_ir(max_classes=5, grammar="orm", extras=True, uid=True, allow_underscore=True, allow_mixin=True, allow_kw_only=True, **model_kw))
    graphs = [draw(G.graph_ir(model, max_nodes=max_nodes, sql=sql)) for _ in range(n_graphs)]
    return {"model": model, "graphs": graphs, "shared_state": draw(st.booleans())}


class C04(Check):
    id = "C04"
    title = "Object -> DAO -> object round trip preserves structure, types and aliasing"
    rule = (
        "Hypothesis draws a model (documented modelling rules plus a class persisted through a lossless alternative "
        "mapping, a dataclass persisted through an alternative mapping together with a normally mapped subclass of it "
        "that refers back into the model (cycles), an alternative mapping that builds mapped helper objects on the fly, "
        "and a value persisted through a lossless custom column type) and, per model, several object graphs "
        "of 1-8 nodes with references by index, so sharing, back references, self loops and cycles are drawn "
        "directly; None for optional fields, empty collections, subclass instances in base-typed fields, "
        "alternatively-mapped objects in collections (also aliased) and below inherited DAOs; 1-3 roots converted "
        "with one ToDAOState or with separate states. The SQLAlchemy layer is generated from the current tree. "
        "Oracle: a bisimulation between the original graph and from_dao(to_dao(g)) whose node map must stay a "
        "bijection, with exact classes, scalar equality incl. type, None, list order, set membership. Non-trivial: "
        "the graph has a node with in-degree >= 2 (sharing or a cycle). Distinct = distinct (model, graph)."
    )
    assumptions = [
        "harness alternative mapping and custom type are lossless (the repository's example mappings are lossy on purpose)",
        "every root class carries a unique uid field so that set elements can be matched without guessing",
        "dataclasses are eq=False (identity semantics), fields are assigned after construction so cycles can be built",
        "collections are compared by isinstance(list/set), not by exact container class",
    ]
    budget = {
        "quick": dict(examples=40, shards=16, seconds=120),
        "thorough": dict(examples=400, shards=16, seconds=1500),
    }

    def strategy(self, tier, exclude):
        return model_and_graphs(n_graphs=6 if tier == "quick" else 10, max_nodes=8 if tier == "quick" else 14,
                                allow_set="set_collection_of_mapped_class" not in exclude)

    def static_features(self, ir):
        return model_features(ir["model"])

    def run(self, ir) -> Outcome:
        from krrood.ormatic.dao import FromDAOState, ToDAOState, to_dao

        from ..ormlayer import Layer

        model = ir["model"]
        try:
            layer = Layer(model)
        except Exception as exc:
            return Outcome(rejected=True)  # generation problems are C06's subject
        classes_ = set()
        nontrivial = False
        try:
            for gi, graph in enumerate(ir["graphs"]):
                stats = G.graph_stats(model, graph)
                nontrivial = nontrivial or stats["shared"] > 0
                classes_.add(f"shared{min(stats['shared'], 3)}")
                if any(nd["c"] == "Vec" for nd in graph["nodes"]):
                    classes_.add("alternative_mapping")
                if any(nd["c"] not in G.EXTRA_NODES and model["classes"][nd["c"]].get("base2") is not None for nd in graph["nodes"]):
                    classes_.add("instance_of_class_with_two_bases")
                if any(nd["c"] == "Title" for nd in graph["nodes"]):
                    classes_.add("subclass_of_alternatively_mapped_class")
                if stats["shared_title"]:
                    classes_.add("shared_subclass_of_alternatively_mapped_class")
                objs = G.build_graph(model, graph, layer.mod, layer.clss)
                roots = [objs[i] for i in graph["roots"]]
                try:
                    if ir["shared_state"]:
                        state = ToDAOState()
                        daos = [to_dao(r, state) for r in roots]
                        fstate = FromDAOState()
                        back = [d.from_dao(state=fstate) for d in daos]
                        groups = [(roots, back)]
                    else:
                        groups = []
                        for r in roots:
                            d = to_dao(r)
                            groups.append(([r], [d.from_dao()]))
                except Exception as exc:
                    return crash(exc, f"graph {gi}", classes=sorted(classes_), nontrivial=nontrivial)
                try:
                    for ra, rb in groups:
                        G.isomorphic(model, layer.mod, ra, rb)
                except G.Mismatch as m:
                    return fail(m.kind, f"graph {gi}: {m}", classes=sorted(classes_), nontrivial=nontrivial, bucket=m.kind,
                                features=model_features(model))
            return Outcome(nontrivial=nontrivial, classes=sorted(classes_))
        finally:
            layer.close()


CHECK = C04()

"""C05 - persisting to SQL and reloading in a fresh session restores the object graph.

IR: as C04: {"model", "graphs", "shared_state"}
"""
from __future__ import annotations

from hypothesis import strategies as st

from .. import modelir as MI
from .. import ormgraph as G
from ..core import Check, Outcome, crash, fail
from .c04 import model_and_graphs, model_features


def self_hierarchy_refs(model):
    """(class index, field) of single-valued references whose target lies in the own class hierarchy"""
    out = []
    for i, c in enumerate(model["classes"]):
        for f in c["fields"]:
            t = f["t"]
            e = MI.endpoint(t)
            if e["k"] == "ref" and t["k"] in ("ref", "opt") and not f["name"].startswith("_"):
                fam = {i} | set(MI.ancestors(model, i)) | {j for j in range(len(model["classes"])) if i in MI.ancestors(model, j)}
                if e["c"] in fam:
                    out.append((i, f["name"]))
    return out


class C05(Check):
    id = "C05"
    title = "Persisting to SQL and reloading in a fresh session restores the object graph"
    rule = (
        "Hypothesis draws models and object graphs as for C04 (freshly generated models incl. lossless alternative "
        "mappings, a normally mapped subclass of an alternatively mapped class, and a custom column type). Per graph: a fresh in-memory SQLite engine from "
        "krrood.ormatic.utils.create_engine, create_all, to_dao of the roots, add_all, commit, close; then a new "
        "Session, and for the root's DAO class and every DAO base class in its inheritance chain the row with the "
        "root's key is loaded and from_dao'ed. Oracle: the C04 bisimulation with relationship collections compared "
        "as sets of identity classes, plus a row census (rows of every table = number of distinct reachable objects "
        "of that class or a subclass) and polymorphic loading of the concrete subclass. Non-trivial: a shared object "
        "or a subclass instance loaded through a base DAO. Distinct = distinct (model, graph)."
    )
    assumptions = [
        "SQLite only (no other SQL back end exists in the sandbox); -0.0 is not generated (SQLite drops the sign of zero)",
        "relationship collections are compared as sets of identity classes (association tables carry no order)",
        "harness mappings are lossless; every root class carries a unique uid",
    ]
    budget = {
        "quick": dict(examples=25, shards=16, seconds=150),
        "thorough": dict(examples=300, shards=16, seconds=1500),
    }

    def strategy(self, tier, exclude):
        return model_and_graphs(n_graphs=5 if tier == "quick" else 10, max_nodes=8 if tier == "quick" else 14, sql=True,
                                allow_set="set_collection_of_mapped_class" not in exclude)

    def static_features(self, ir):
        f = model_features(ir["model"])
        if self_hierarchy_refs(ir["model"]):
            f.add("reference_into_own_hierarchy")
        return f

    def run(self, ir) -> Outcome:
        from sqlalchemy import func, select
        from sqlalchemy.orm import Session

        from krrood.ormatic.dao import ToDAOState, to_dao
        from krrood.ormatic.utils import create_engine

        from ..ormlayer import Layer

        model = ir["model"]
        feats = self.static_features(ir)
        try:
            layer = Layer(model)
        except Exception:
            return Outcome(rejected=True)
        classes_ = set(feats)
        nontrivial = False
        names = [c["name"] for c in model["classes"]]
        try:
            for gi, graph in enumerate(ir["graphs"]):
                stats = G.graph_stats(model, graph)
                objs = G.build_graph(model, graph, layer.mod, layer.clss)
                roots = [objs[i] for i in graph["roots"]]
                subclass_root = any(model["classes"][graph["nodes"][i]["c"]]["base"] is not None for i in graph["roots"])
                nontrivial = nontrivial or stats["shared"] > 0 or subclass_root
                classes_.add(f"shared{min(stats['shared'], 3)}")
                if subclass_root:
                    classes_.add("subclass_loaded_through_base_dao")

                def bad(kind, msg):
                    return fail(kind, f"graph {gi}: {msg}", classes=sorted(classes_), nontrivial=nontrivial, features=feats, bucket=kind)

                engine = create_engine("sqlite:///:memory:")
                try:
                    layer.gen.Base.metadata.create_all(engine)
                    try:
                        state = ToDAOState()
                        daos = [to_dao(r, state) for r in roots]
                        with Session(engine) as session:
                            session.add_all(daos)
                            session.commit()
                            keys = [d.database_id for d in daos]
                    except Exception as exc:
                        return crash(exc, f"graph {gi}: persisting", classes=sorted(classes_), nontrivial=nontrivial, features=feats)
                    # ---- row census
                    reach = G.reachable(model, roots)
                    with Session(engine) as session:
                        for ci, cname in enumerate(names):
                            # joined-table inheritance follows the first bases: an object has a row in the table of its
                            # class and of every class in its chain of first bases
                            want = sum(1 for o in reach if type(o).__name__ in names and
                                       (names.index(type(o).__name__) == ci or ci in MI.ancestors(model, names.index(type(o).__name__))))
                            table = layer.dao_class(layer.clss[ci]).__table__
                            got = session.execute(select(func.count()).select_from(table)).scalar()
                            if got != want:
                                return bad("wrong_row_count", f"table {table.name}: {got} rows for {want} distinct objects")
                        if model.get("extras"):
                            # every point of a reachable Track is stored as a Vec row of its own
                            want = sum(1 for o in reach if type(o).__name__ == "Vec") + sum(len(o.points) for o in reach if type(o).__name__ == "Track")
                            got = session.execute(select(func.count()).select_from(layer.dao_class(layer.mod.Vec).__table__)).scalar()
                            if got != want:
                                return bad("wrong_row_count", f"table of the alternatively mapped class: {got} rows for {want} distinct objects")
                            for cname in ("Label", "Title", "Track"):
                                want = sum(1 for o in reach if isinstance(o, getattr(layer.mod, cname)))
                                table = layer.dao_class(getattr(layer.mod, cname)).__table__
                                got = session.execute(select(func.count()).select_from(table)).scalar()
                                if got != want:
                                    return bad("wrong_row_count", f"table {table.name}: {got} rows for {want} distinct objects")
                    # ---- reload through every DAO class of the chain
                    for root, key in zip(roots, keys):
                        ci = names.index(type(root).__name__)
                        chain = [ci] + MI.ancestors(model, ci)
                        for via in chain:
                            dao_cls = layer.dao_class(layer.clss[via])
                            try:
                                with Session(engine) as session:
                                    row = session.scalars(select(dao_cls).where(dao_cls.database_id == key)).one_or_none()
                                    if row is None:
                                        return bad("row_not_found", f"{names[ci]} root not found through {names[via]}DAO")
                                    back = row.from_dao()
                            except Exception as exc:
                                return crash(exc, f"graph {gi}: reloading through {names[via]}DAO", classes=sorted(classes_),
                                             nontrivial=nontrivial, features=feats)
                            try:
                                G.isomorphic(model, layer.mod, [root], [back], ordered_collections=False)
                            except G.Mismatch as m:
                                return fail(m.kind, f"graph {gi}: via {names[via]}DAO: {m}", classes=sorted(classes_),
                                            nontrivial=nontrivial, features=feats, bucket=m.kind)
                finally:
                    engine.dispose()
            return Outcome(nontrivial=nontrivial, classes=sorted(classes_))
        finally:
            layer.close()


CHECK = C05()

"""C16 - every way of writing a descriptor-managed collection field keeps the data and infers alike.

IR: {"pop":[...], "ops":[{"o":owner index,"f":field,"op":name,"args":[target indexes],"idx":int}]}
Model: a plain Python list/set per (owner, field) updated with the same operation.
"""
from __future__ import annotations

from hypothesis import strategies as st

from ..core import Check, Outcome, crash, fail
from ..onto import model as M
from .c15 import gen_population

LIST_OPS = ["assign", "assign_self", "assign_lazy", "iadd", "append", "extend", "insert", "setitem"]
SET_OPS = ["assign", "assign_self", "assign_lazy", "ior", "add", "update"]
COLLECTION_FIELDS = {
    "Org": [("part_of", "list", "Org"), ("linked_to", "list", "Org"), ("members", "set", "Agent"), ("has_part", "list", "Org")],
    "Agent": [("member_of", "list", "Org"), ("affiliated_with", "set", "Org")],
}


class C16(Check):
    id = "C16"
    title = "Every way of writing a descriptor-managed field keeps the data and infers alike"
    rule = (
        "Hypothesis draws a population of the harness ontology and a history of 1-12 write operations on its list- "
        "and set-valued managed fields: assignment of a new list/set (repeated elements, any order), assignment of "
        "the field to itself, assignment of a lazy iterable over the field (reversed(x.f), a generator), += / |=, append, extend, insert, item assignment, add, update, and construction of a new object "
        "whose field gets its first contents from the constructor - starting from "
        "whatever the previous operations and inferences left in the field. Oracle: a plain Python list/set model "
        "updated with the same operation gives the elements that must be in the field (order and repetitions for "
        "lists, compared on the part of the field the model knows: elements added by inference are allowed "
        "besides); for every element in the model the relation and its closure (C15's reference) must be in the "
        "symbol graph and in the inverse/super fields. Non-trivial: the history uses >= 3 different write paths "
        "including a self-referential one (field assigned to itself, += or |=). Distinct = distinct IR."
    )
    assumptions = [
        "nothing is asserted about relations of elements that left a field (retraction is outside the statement)",
        "elements that inference adds to a field (inverse/transitive facts) are allowed in addition to the model's elements; for lists the model's elements must appear as a subsequence in order with their multiplicity",
        "x.f.extend(x.f) (extending a monitored list by itself) is not generated: it does not terminate today and the harness has no clock",
        "item assignment only on indexes that exist",
    ]
    budget = {
        "quick": dict(examples=300, shards=16, seconds=75),
        "thorough": dict(examples=8000, shards=16, seconds=1200),
    }

    def setup_worker(self):
        from ..models import ontology  # noqa: F401

        M.reset_graph()

    def strategy(self, tier, exclude):
        @st.composite
        def ir(draw):
            pop = gen_population(draw, max_bosses=0)
            by_cls = {c: [i for i, p in enumerate(pop) if p["cls"] == c] for c in ("Org", "Agent")}
            ops = []
            cls_of = [p["cls"] for p in pop]
            for _ in range(draw(st.integers(1, 12 if tier == "quick" else 25))):
                if draw(st.integers(0, 5)) == 0:
                    # a new object whose collection field gets its first contents from the constructor
                    c = draw(st.sampled_from(["Org", "Agent"]))
                    f, kind, rng = draw(st.sampled_from(COLLECTION_FIELDS[c]))
                    args = draw(st.lists(st.sampled_from(by_cls[rng]), min_size=1, max_size=3, unique=(kind == "set")))
                    ops.append({"o": len(cls_of), "f": f, "op": "construct", "args": args, "idx": 0, "cls": c})
                    by_cls[c].append(len(cls_of))
                    cls_of.append(c)
                    continue
                o = draw(st.integers(0, len(cls_of) - 1))
                f, kind, rng = draw(st.sampled_from(COLLECTION_FIELDS[cls_of[o]]))
                op = draw(st.sampled_from(LIST_OPS if kind == "list" else SET_OPS))
                args = draw(st.lists(st.sampled_from(by_cls[rng]), min_size=0 if op in ("assign", "assign_lazy", "iadd", "ior", "extend", "update") else 1,
                                     max_size=3))
                ops.append({"o": o, "f": f, "op": op, "args": args, "idx": draw(st.integers(0, 7))})
            return {"pop": pop, "ops": ops}

        return ir()

    def run(self, ir) -> Outcome:
        M.reset_graph()
        pop = ir["pop"]
        try:
            inst, classes, taker = M.make_population(pop)
        except Exception as exc:
            return crash(exc, "creating population")
        model = {}
        retracted = set()  # (owner, field, target) that a write removed from the field: nothing is asserted about them
        used = set()
        for n, op in enumerate(ir["ops"]):
            o, f, name, args, idx = op["o"], op["f"], op["op"], op["args"], op["idx"]
            if name == "construct":
                from ..models import ontology as O

                kind = M.FIELDS[(op["cls"], f)][1]
                objs = [inst[a] for a in args]
                used.add(name)
                try:
                    inst.append(O.CLASSES[op["cls"]](f"{op['cls'][0].lower()}{o}", **{f: list(objs) if kind == "list" else set(objs)}))
                except Exception as exc:
                    return crash(exc, f"op {n} {op}", classes=sorted(used))
                classes.append(op["cls"])
                model[(o, f)] = list(args) if kind == "list" else set(args)
                field_now = getattr(inst[o], f)
                before_labels = set()
            kind = M.FIELDS[(classes[o], f)][1]
            cur = model.setdefault((o, f), [] if kind == "list" else set())
            objs = [inst[a] for a in args]
            obj = inst[o]
            if name == "setitem" and not list(getattr(obj, f)):
                name = "append"
            used.add(name)
            try:
                if name != "construct":
                    field_now = getattr(obj, f)
                    before_labels = {M_label(inst, x) for x in field_now}
                if name == "construct":
                    pass
                elif name == "assign":
                    setattr(obj, f, list(objs) if kind == "list" else set(objs))
                    model[(o, f)] = list(args) if kind == "list" else set(args)
                elif name == "assign_self":
                    # the field holds the model's elements plus inferred ones; assigning it to itself keeps them all
                    before = [M_label(inst, x) for x in field_now]
                    setattr(obj, f, getattr(obj, f))
                    model[(o, f)] = list(before) if kind == "list" else set(before)
                elif name == "assign_lazy":
                    # a new collection given as a lazy iterable that reads from the field itself
                    before = [M_label(inst, x) for x in field_now]
                    if kind == "list":
                        setattr(obj, f, reversed(getattr(obj, f)))
                        model[(o, f)] = list(reversed(before))
                    else:
                        setattr(obj, f, (e for e in getattr(obj, f)))
                        model[(o, f)] = set(before)
                elif name == "iadd":
                    before = [M_label(inst, x) for x in field_now]
                    tmp = getattr(obj, f)
                    tmp += list(objs)
                    setattr(obj, f, tmp)  # what `obj.f += [...]` does
                    model[(o, f)] = before + list(args)
                elif name == "ior":
                    before = {M_label(inst, x) for x in field_now}
                    tmp = getattr(obj, f)
                    tmp |= set(objs)
                    setattr(obj, f, tmp)  # what `obj.f |= {...}` does
                    model[(o, f)] = before | set(args)
                elif name == "append":
                    field_now.append(objs[0])
                    cur.append(args[0])
                elif name == "extend":
                    field_now.extend(list(objs))
                    cur.extend(args)
                elif name == "insert":
                    real = list(field_now)
                    pos = idx % (len(real) + 1)
                    field_now.insert(pos, objs[0])
                    # position in the model: after the model elements that precede `pos` in the real field
                    model[(o, f)] = _insert_like(real, cur, pos, args[0], inst)
                elif name == "setitem":
                    real = list(field_now)
                    pos = idx % len(real)
                    # every second item assignment addresses the position from the end (down to -len)
                    field_now[pos - len(real) if op.get("idx", 0) % 2 else pos] = objs[0]
                    model[(o, f)] = _setitem_like(real, cur, pos, args[0], inst)
                elif name == "add":
                    field_now.add(objs[0])
                    cur.add(args[0])
                elif name == "update":
                    field_now.update(set(objs))
                    cur.update(args)
            except Exception as exc:
                return crash(exc, f"op {n} {op}", classes=sorted(used))
            # ---- compare
            graph, fields, lists = M.observe(inst)
            after_labels = set(lists.get((o, f), []))
            retracted |= {(o, f, t) for t in before_labels - after_labels}
            retracted -= {(o, f, t) for t in after_labels}
            classes_ = sorted(used)
            self_ref = bool(used & {"assign_self", "assign_lazy", "iadd", "ior"})
            nontrivial = len(used) >= 3 and self_ref
            for (oo, ff), want in model.items():
                got = lists.get((oo, ff), [])
                if isinstance(want, set):
                    if not want <= set(got):
                        return fail("set_field_lost_elements", f"after op {n} {op}: field {classes[oo]}{oo}.{ff} = {got}, must contain {sorted(want)}",
                                    classes=classes_, nontrivial=nontrivial, bucket=name)
                else:
                    if not _is_subsequence(want, got):
                        kind_ = "list_field_lost_elements" if not set(want) <= set(got) or any(got.count(x) < want.count(x) for x in set(want)) else "list_field_order_changed"
                        return fail(kind_, f"after op {n} {op}: field {classes[oo]}{oo}.{ff} = {got}, must contain {want} in this order",
                                    classes=classes_, nontrivial=nontrivial, bucket=name)
            base = [(oo, ff, t) for (oo, ff), want in model.items() for t in want]
            want_closure = M.closure(base, classes, taker)
            for name_, got in (("graph", graph), ("fields", fields)):
                missing = want_closure - got - (retracted if name_ == "fields" else set())
                if missing:
                    lab = lambda tr: tuple(f"{classes[x]}{x}" if isinstance(x, int) else x for x in tr)
                    return fail(f"{name_}_missing_inference", f"after op {n} {op}: missing={sorted(map(lab, missing))[:5]}",
                                classes=classes_, nontrivial=nontrivial, bucket=name)
        self_ref = bool(used & {"assign_self", "assign_lazy", "iadd", "ior"})
        return Outcome(nontrivial=len(used) >= 3 and self_ref, classes=sorted(used))


def M_label(inst, x):
    for i, o in enumerate(inst):
        if o is x:
            return i
    return repr(x)


def _is_subsequence(want, got):
    it = iter(got)
    return all(any(x == y for y in it) for x in want)


def _insert_like(real, model, pos, new, inst):
    """insert `new` into the model list at the place corresponding to position `pos` of the real field"""
    labels = [M_label(inst, x) for x in real]
    # number of model elements matched (as a subsequence) within real[:pos]
    k, j = 0, 0
    for lab in labels[:pos]:
        if j < len(model) and model[j] == lab:
            j += 1
    out = list(model)
    out.insert(j, new)
    return out


def _setitem_like(real, model, pos, new, inst):
    labels = [M_label(inst, x) for x in real]
    j = 0
    matched_at = {}
    for p, lab in enumerate(labels):
        if j < len(model) and model[j] == lab:
            matched_at[p] = j
            j += 1
    out = list(model)
    if pos in matched_at:
        out[matched_at[pos]] = new
    else:
        # an inferred element was replaced; the new element enters the field at that place
        before = sum(1 for p in matched_at if p < pos)
        out.insert(before, new)
    return out


CHECK = C16()

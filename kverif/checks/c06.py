"""C06 - ORMatic produces a valid, complete SQLAlchemy layer for every supported model.

IR: {"model": model IR (grammar "orm"), "determinism": bool}
"""
from __future__ import annotations

import atexit
import importlib.util
import os
import shutil
import subprocess
import sys
import tempfile

from hypothesis import strategies as st

from .. import modelir as MI
from ..core import Check, Outcome, crash, fail, repo_paths

_SCRATCH = [None]


def scratch_dir():
    if _SCRATCH[0] is None or not os.path.isdir(_SCRATCH[0]):
        d = tempfile.mkdtemp(prefix="kverif_orm_")
        _SCRATCH[0] = d
        sys.path.insert(0, d)
        atexit.register(shutil.rmtree, d, True)
    return _SCRATCH[0]


def generate(model_classes, out_path, mod=None):
    """mod: the model module when it has the extras (alternative mappings, custom column type)"""
    from krrood.class_diagrams.class_diagram import ClassDiagram
    from krrood.ormatic.ormatic import ORMatic

    kwargs = {}
    model_classes = list(model_classes)
    if mod is not None:
        model_classes += [mod.Vec, mod.Label, mod.Title, mod.Track]
        kwargs = dict(alternative_mappings=[mod.VecMapping, mod.LabelMapping, mod.TrackMapping], type_mappings={mod.Money: mod.MoneyType})
    orm = ORMatic(ClassDiagram(model_classes), **kwargs)
    orm.make_all_tables()
    with open(out_path, "w") as fh:
        orm.to_sqlalchemy_file(fh)
    return orm


def import_file(path, name):
    spec = importlib.util.spec_from_file_location(name, path)
    mod = importlib.util.module_from_spec(spec)
    sys.modules[name] = mod
    spec.loader.exec_module(mod)
    return mod


GEN_SCRIPT = r"""
import sys, importlib, os
sys.path[:0] = {paths!r}
import warnings; warnings.simplefilter("ignore")
mod = importlib.import_module({model!r})
from krrood.class_diagrams.class_diagram import ClassDiagram
from krrood.ormatic.ormatic import ORMatic
classes = [getattr(mod, n) for n in {names!r}]
kwargs = dict()
if {extras!r}:
    classes += [mod.Vec, mod.Label, mod.Title, mod.Track]
    kwargs = dict(alternative_mappings=[mod.VecMapping, mod.LabelMapping, mod.TrackMapping], type_mappings={{mod.Money: mod.MoneyType}})
orm = ORMatic(ClassDiagram(classes), **kwargs); orm.make_all_tables()
out = {out!r}
with open(out, "w") as fh:
    orm.to_sqlalchemy_file(fh)
"""


class C06(Check):
    id = "C06"
    title = "ORMatic produces a valid, complete SQLAlchemy layer for every supported model"
    rule = (
        "Hypothesis draws a model of 1-6 dataclasses following the documented modelling rules (scalars, Optional "
        "scalars, an enum, datetimes, lists of builtins, references and Optional references to mapped classes "
        "including the own class and mutual pairs, List/Set collections of mapped classes including several of one "
        "target and of the own type, inheritance chains and siblings, underscore fields, shuffled declaration "
        "order), rendered to a real module with forward references. In-process: ORMatic generation must not raise, "
        "the generated module must import, its mappers configure, create_all succeed on SQLite; then "
        "sqlalchemy.inspect of every DAO is compared with an independent reading of the model IR (one DAO per "
        "class with original_class, issubclass along the IR inheritance exactly, a column per public "
        "scalar/enum/datetime/JSON-list/custom-typed field whose SQLAlchemy type fits the annotation, a uselist=False relationship per reference (also to the DAO of an alternatively mapped class), a uselist=True "
        "relationship with its own association table per collection, nothing for underscore fields). For a "
        "third of the cases the layer is generated a second time in the same process and must be identical; for a "
        "sixth of the cases the generation is repeated in two fresh processes with different PYTHONHASHSEED and "
        "the texts must be identical. Non-trivial: the model has inheritance and a relationship. Distinct = distinct IR."
    )
    assumptions = [
        "models follow doc/ormatic/intro.rst: only Optional unions, non-optional non-nested collections, every class of a reference is part of the model",
        "the generated module is formatted by black in a subprocess, as ORMatic does itself",
        "every generated layer has its own DeclarativeBase; only that registry is configured and it is disposed afterwards",
    ]
    budget = {
        "quick": dict(examples=12, shards=16, seconds=120),
        "thorough": dict(examples=500, shards=16, seconds=1500),
    }

    def strategy(self, tier, exclude):
        kw = dict(max_classes=6, grammar="orm", allow_mixin=True, allow_self_collection="self_typed_collection" not in exclude,
                  require_builtin="no_builtin_field" in exclude)
        plain = st.tuples(MI.model_ir(**kw), st.integers(0, 5))
        # a third of the models use a custom column type, an alternatively mapped class and a normally mapped subclass of one
        extra = st.tuples(MI.model_ir(extras=True, **kw), st.integers(0, 5))
        return st.one_of(plain, plain, extra).map(lambda t: {"model": t[0], "determinism": t[1] == 0, "regenerate": t[1] in (1, 2)})

    @staticmethod
    def column_type(kind, t, mod):
        """SQLAlchemy type class expected for a field's column; None where the statement does not fix it"""
        import sqlalchemy as sa

        if t["k"] in ("list", "set"):
            return sa.JSON
        if kind == "custom":
            return mod.MoneyType
        return {"int": sa.Integer, "float": sa.Float, "str": sa.String, "bool": sa.Boolean, "datetime": sa.DateTime,
                "enum": sa.Enum}.get(kind)

    def static_features(self, ir):
        f = set()
        m = ir["model"]
        for i, c in enumerate(m["classes"]):
            for fl in c["fields"]:
                t = fl["t"]
                if t["k"] in ("list", "set") and t["of"]["k"] == "ref" and (t["of"]["c"] == i) and not fl["name"].startswith("_"):
                    f.add("self_typed_collection")
        if not any(MI.classify(fl["t"])["is_builtin"] and MI.endpoint(fl["t"])["k"] in MI.SCALARS and not fl["name"].startswith("_")
                   for c in m["classes"] for fl in c["fields"]):
            f.add("no_builtin_field")
        return f

    def run(self, ir) -> Outcome:
        import sqlalchemy
        from sqlalchemy import create_engine
        from sqlalchemy import inspect as sa_inspect

        model = ir["model"]
        names = [c["name"] for c in model["classes"]]
        d = scratch_dir()
        feats = self.static_features(ir)
        has_inh = any(c["base"] is not None for c in model["classes"])
        rels = [(i, f) for i, c in enumerate(model["classes"]) for f in c["fields"]
                if not f["name"].startswith("_") and MI.endpoint(f["t"])["k"] == "ref"]
        nontrivial = has_inh and bool(rels)
        classes_ = sorted(feats) + (["inheritance"] if has_inh else []) + (["relationship"] if rels else [])
        if any(MI.endpoint(f["t"])["c"] == i for i, f in rels):
            classes_.append("self_reference")
        tgt = [(i, f["t"]["of"]["c"]) for i, f in rels if f["t"]["k"] in ("list", "set")]
        if len(tgt) != len(set(tgt)):
            classes_.append("several_collections_of_one_target")
        depth = max(len(MI.ancestors(model, i)) for i in range(len(names)))
        classes_.append(f"inheritance_depth{depth}")
        if any(c.get("base2") is not None for c in model["classes"]):
            classes_.append("multiple_inheritance")

        def bad(kind, msg):
            return fail(kind, msg, classes=classes_, nontrivial=nontrivial, features=feats, bucket=kind)

        mod, clss = MI.load(model, d)
        gen_name = mod.__name__ + "_dao"
        gen_path = os.path.join(d, gen_name + ".py")
        gen = None
        try:
            try:
                generate([clss[i] for i in model["order"]], gen_path, mod if model.get("extras") else None)
            except Exception as exc:
                return crash(exc, "ORMatic generation", classes=classes_, nontrivial=nontrivial, features=feats)
            try:
                gen = import_file(gen_path, gen_name)
            except Exception as exc:
                return crash(exc, "importing the generated module", classes=classes_, nontrivial=nontrivial, features=feats)
            try:
                gen.Base.registry.configure()
            except Exception as exc:
                return crash(exc, "configuring mappers", classes=classes_, nontrivial=nontrivial, features=feats)
            try:
                engine = create_engine("sqlite:///:memory:")
                gen.Base.metadata.create_all(engine)
                engine.dispose()
            except Exception as exc:
                return crash(exc, "create_all", classes=classes_, nontrivial=nontrivial, features=feats)
            # ---- structure
            daos = []
            for i, n in enumerate(names):
                dao = getattr(gen, n + "DAO", None)
                if dao is None:
                    return bad("missing_dao", f"no {n}DAO in the generated module")
                if dao.original_class() is not clss[i]:
                    return bad("wrong_original_class", f"{n}DAO.original_class() is {dao.original_class()}")
                daos.append(dao)
            for i in range(len(names)):
                for j in range(len(names)):
                    if i == j:
                        continue
                    want = j in MI.ancestors(model, i)
                    if not want and j in MI.all_ancestors(model, i):
                        continue  # reached through a second base: only the chain of first bases is mirrored for certain
                    if issubclass(daos[i], daos[j]) != want:
                        return bad("inheritance_not_mirrored", f"issubclass({names[i]}DAO, {names[j]}DAO) is {not want}")
            secondaries = {}
            for i, c in enumerate(model["classes"]):
                insp = sa_inspect(daos[i])
                cols = {a.key for a in insp.column_attrs}
                relationships = {r.key: r for r in insp.relationships}
                # own fields, and the fields that come in through a second base (they have no other table to live in)
                first_chain = {f["name"] for a in MI.ancestors(model, i) for f in MI.all_fields(model, a)}
                via_second_base = [f for f in MI.all_fields(model, i) if f["name"] not in first_chain and f not in c["fields"]]
                for f in list(c["fields"]) + via_second_base:
                    name, t = f["name"], f["t"]
                    if name.startswith("_"):
                        if name in cols or name in relationships:
                            return bad("underscore_field_mapped", f"{names[i]}.{name} appears in the DAO")
                        continue
                    e = MI.endpoint(t)
                    if e["k"] not in ("ref", "alt", "lab", "trk"):
                        if name not in cols:
                            return bad("missing_column", f"{names[i]}.{name}: {MI.annotation(t, names)} has no column (columns: {sorted(cols)})")
                        col_type = getattr(daos[i], name).property.columns[0].type
                        want_type = self.column_type(e["k"], t, mod)
                        if want_type is not None and not isinstance(col_type, want_type):
                            return bad("wrong_column_type", f"{names[i]}.{name}: {MI.annotation(t, names)} is stored as {col_type!r}, expected {want_type.__name__}")
                        continue
                    r = relationships.get(name)
                    if r is None:
                        return bad("missing_relationship", f"{names[i]}.{name}: {MI.annotation(t, names)} has no relationship (relationships: {sorted(relationships)})")
                    want_target = daos[e["c"]] if e["k"] == "ref" else getattr(gen, {"alt": "VecMappingDAO", "lab": "LabelMappingDAO", "trk": "TrackMappingDAO"}[e["k"]], None)
                    if r.mapper.class_ is not want_target:
                        return bad("relationship_wrong_target", f"{names[i]}.{name} -> {r.mapper.class_.__name__}, expected {getattr(want_target, '__name__', None)}")
                    want_list = t["k"] in ("list", "set")
                    if bool(r.uselist) != want_list:
                        return bad("relationship_wrong_cardinality", f"{names[i]}.{name}: {MI.annotation(t, names)} uselist={r.uselist}")
                    if want_list:
                        sec = getattr(r.secondary, "name", None)
                        if sec is None:
                            return bad("collection_without_association_table", f"{names[i]}.{name}")
                        if sec in secondaries:
                            return bad("association_table_shared", f"{names[i]}.{name} and {secondaries[sec]} share {sec}")
                        secondaries[sec] = f"{names[i]}.{name}"
            if model.get("extras"):
                classes_.append("custom_type_and_alternative_mappings")
                for n_, orig, base in (("VecMappingDAO", mod.Vec, None), ("LabelMappingDAO", mod.Label, None), ("TitleDAO", mod.Title, "LabelMappingDAO")):
                    dao = getattr(gen, n_, None)
                    if dao is None:
                        return bad("missing_dao", f"no {n_} in the generated module")
                    if dao.original_class() is not (orig if n_ == "TitleDAO" else getattr(mod, n_[:-3])):
                        return bad("wrong_original_class", f"{n_}.original_class() is {dao.original_class()}")
                    if base and not issubclass(dao, getattr(gen, base)):
                        return bad("inheritance_not_mirrored", f"{n_} is not a subclass of {base}")
            # ---- a second generation in this process (fresh ClassDiagram and ORMatic over the same classes)
            if ir.get("regenerate"):
                again = os.path.join(d, f"{gen_name}_again.py")
                try:
                    generate([clss[i] for i in model["order"]], again, mod if model.get("extras") else None)
                    same = open(again).read() == open(gen_path).read()
                except Exception as exc:
                    return crash(exc, "second generation in the same process", classes=classes_, nontrivial=nontrivial, features=feats)
                finally:
                    if os.path.exists(again):
                        os.remove(again)
                if not same:
                    return bad("regeneration_differs", "generating the layer a second time in the same process gives a different module")
                classes_.append("regenerated_in_process")
            # ---- determinism across processes / hash seeds
            if ir["determinism"]:
                texts = []
                for seed in ("1", "2"):
                    out = os.path.join(d, f"{gen_name}_h{seed}.py")
                    script = GEN_SCRIPT.format(paths=[d] + repo_paths(), model=mod.__name__, names=[names[i] for i in model["order"]], out=out,
                                               extras=bool(model.get("extras")))
                    p = subprocess.run([sys.executable, "-c", script], capture_output=True, text=True,
                                       env=dict(os.environ, PYTHONHASHSEED=seed), timeout=300)
                    if p.returncode != 0:
                        return bad("generation_fails_in_fresh_process", p.stderr[-800:])
                    texts.append(open(out).read())
                    os.remove(out)
                if texts[0] != texts[1]:
                    import difflib

                    diff = "\n".join(list(difflib.unified_diff(texts[0].splitlines(), texts[1].splitlines(), lineterm=""))[:20])
                    return bad("generation_not_deterministic", diff)
                classes_.append("determinism_checked")
            return Outcome(nontrivial=nontrivial, classes=classes_)
        finally:
            try:
                if gen is not None:
                    gen.Base.registry.dispose()
            except Exception:
                pass
            for m_ in (gen_name, mod.__name__):
                sys.modules.pop(m_, None)
            for p in (gen_path, os.path.join(d, mod.__name__ + ".py")):
                try:
                    os.remove(p)
                except OSError:
                    pass


CHECK = C06()

"""C19 - unresolvable JSON type tags fail with the documented serialisation errors only.

IR: {"tag": <json value or {"absent": true}>, "payload": {...}, "warm": [names of classes deserialised successfully
before, in the same process]}. Tags that resolve to a
deserialisable class are outside the property and are rejected by the harness precondition.
Oracle: from_json raises an instance of JSONSerializationError; nothing else escapes, nothing is returned.
"""
from __future__ import annotations

import importlib

from hypothesis import strategies as st

from ..core import Check, Outcome, fail, crash_bucket

# side-effect free, importable modules and a few of their attributes by kind
MODULES = [
    "os", "os.path", "json", "typing", "collections", "collections.abc", "uuid", "decimal", "fractions",
    "dataclasses", "enum", "math", "krrood", "krrood.utils", "krrood.adapters", "krrood.adapters.json_serializer",
    "krrood.singleton", "kverif", "kverif.models", "kverif.models.json_tree", "kverif.models.json_tree_b",
]
ATTRS = [
    # functions
    "getcwd", "dumps", "dataclass", "sqrt", "get_full_class_name", "a_function", "to_json",
    # sub-modules / module attributes
    "path", "abc", "sys", "utils", "adapters", "json_serializer", "models",
    # generic aliases, special forms, type variables
    "List", "Dict", "Any", "Union", "Optional", "TypeVar", "T", "Self", "Callable", "Iterable",
    # classes that are not deserialisable
    "OrderedDict", "Enum", "JSONDecoder", "NotSerializable", "SingletonMeta", "JSONSerializationError",
    "DataclassException", "Fraction", "PurePath",
    # instances and constants
    "pi", "sep", "AN_INSTANCE", "JSON_TYPE_NAME", "leaf_types", "MISSING", "CLASSES",
    # dunder / private
    "__name__", "__dict__", "__doc__", "__file__", "_reg",
]
RESOLVING = [  # module.attribute pairs that exist, by kind of attribute
    "os.getcwd", "json.dumps", "math.sqrt", "kverif.models.json_tree.a_function", "krrood.utils.get_full_class_name",
    "os.path", "collections.abc", "krrood.adapters.json_serializer", "kverif.models.json_tree",
    "typing.List", "typing.Dict", "typing.Any", "typing.Union", "typing.Optional", "krrood.utils.T", "typing.Self",
    "collections.OrderedDict", "enum.Enum", "json.JSONDecoder", "kverif.models.json_tree.NotSerializable",
    "krrood.singleton.SingletonMeta", "krrood.adapters.json_serializer.JSONSerializationError", "typing.TypeVar",
    "krrood.adapters.json_serializer.JSONSerializableTypeRegistry", "dataclasses.MISSING",
    "math.pi", "os.sep", "kverif.models.json_tree.AN_INSTANCE", "krrood.adapters.json_serializer.leaf_types",
    "kverif.models.json_tree.CLASSES", "os.__name__", "os.__dict__", "kverif.models.json_tree._reg",
    # plain classes that share their simple name with a registered type
    "kverif.models.json_tree_b.UUID", "kverif.models.json_tree_b.Decimal",
]
WARM = ["Node0", "Node1", "Node3", "Leaf", "Pair", "Decimal", "Fraction", "UUID", "datetime", "Celsius"]
JUNK = ["zz_nomod_a", "zz_nomod_b.c", "NoSuchClass", "x", "_", "0", "class", "é", "a b"]
PINNED = {  # the four cases the repository's tests pin
    "NotAQualifiedName": "InvalidTypeFormatError",
    "zz_nomod_a.Thing": "UnknownModuleError",
    "krrood.utils.NoSuchClass": "ClassNotFoundError",
}


def resolves_to_deserialisable(tag) -> bool:
    """Harness-side mirror of 'names a deserialisable class' (those tags are outside the property)."""
    if not isinstance(tag, str) or "." not in tag:
        return False
    mod, _, name = tag.rpartition(".")
    if not mod or mod.startswith(".") or mod not in MODULES:
        return False
    try:
        m = importlib.import_module(mod)
    except Exception:
        return False
    obj = getattr(m, name, None)
    if not isinstance(obj, type):
        return False
    from krrood.adapters.json_serializer import JSONSerializableTypeRegistry, SubclassJSONSerializer

    try:
        if issubclass(obj, SubclassJSONSerializer):
            return True
    except TypeError:
        return False
    return obj in JSONSerializableTypeRegistry()._deserializers


def warm_value(name):
    import datetime
    import decimal
    import fractions
    import uuid

    from ..models import json_tree as jt

    if name in jt.CLASSES:
        return jt.CLASSES[name]()
    return {"Decimal": decimal.Decimal("1.5"), "Fraction": fractions.Fraction(1, 3), "UUID": uuid.UUID(int=7),
            "datetime": datetime.datetime(2020, 1, 2), "Celsius": jt.Celsius(3)}[name]


class C19(Check):
    id = "C19"
    title = "Unresolvable JSON type tags fail with the documented serialisation errors only"
    rule = (
        "Hypothesis-generated documents {payload..., __json_type__: tag} where tag is any JSON value (ints, "
        "floats, bools, None, lists, dicts, empty string) or a string from a grammar: curated importable "
        "modules x attribute kinds (function, sub-module, generic alias, type variable, non-serialisable class, "
        "instance, dunder), junk names, dot patterns (leading/trailing/double/only dots, whitespace), a module "
        "whose import raises ImportError; also the tag key absent; the document is given to the module-level from_json, to SubclassJSONSerializer.from_json "
        "or to from_json of a concrete harness class (whose name also occurs as last tag component); each call optionally preceded, in the same process, "
        "by 0-3 successful deserialisations of harness classes / registered types whose names also occur as last "
        "tag components under wrong modules. Oracle: from_json raises a "
        "JSONSerializationError subclass; the four cases pinned by the repository tests keep their class. "
        "Non-trivial: the tag is a non-empty string or a truthy non-string (passes the first resolution step). "
        "Distinct = distinct IR."
    )
    assumptions = [
        "tags that resolve to a SubclassJSONSerializer subclass or a registered type are outside the property and skipped",
        "a module 'cannot be imported' = importing it raises ImportError or a subclass (other exceptions raised by module code are not generated)",
        "only side-effect-free modules from a curated list are named; junk module names are chosen not to exist",
    ]
    budget = {
        "quick": dict(examples=400, shards=16, seconds=45),
        "thorough": dict(examples=15000, shards=16, seconds=900),
    }

    def setup_worker(self):
        from ..models import json_tree, json_tree_b  # noqa: F401

    def strategy(self, tier, exclude):
        ident = st.one_of(st.sampled_from(ATTRS), st.sampled_from(JUNK), st.sampled_from(MODULES), st.sampled_from(WARM),
                          st.text(alphabet="ab_Z9. \té", min_size=0, max_size=4))
        modname = st.one_of(st.sampled_from(MODULES), st.sampled_from(JUNK),
                            st.just("kverif.models.broken_import_module"),
                            st.sampled_from(MODULES).flatmap(lambda m: st.sampled_from(JUNK).map(lambda j: f"{m}.{j}")))
        dotted = st.tuples(modname, ident).map(lambda p: f"{p[0]}.{p[1]}")

        def decorate(s):
            return st.sampled_from([s, "." + s, s + ".", ".." + s, s.replace(".", "..", 1), " " + s, s + " ",
                                    s.replace(".", " . "), s.upper(), s.split(".")[-1], "." , "..", "...", s + "." + s])

        strings = st.one_of(dotted, dotted.flatmap(decorate), ident, st.sampled_from(RESOLVING),
                            st.sampled_from(RESOLVING).flatmap(decorate), st.sampled_from(sorted(PINNED)),
                            st.text(alphabet=". ab_é\x00/\\:", max_size=6), st.just(""))
        scalars = st.one_of(st.none(), st.booleans(), st.integers(-3, 3), st.integers(-2**65, 2**65),
                            st.floats(allow_nan=False, allow_infinity=False), st.sampled_from([0.0, 1.5, -1.0]))
        jsonv = st.recursive(st.one_of(scalars, strings),
                             lambda c: st.one_of(st.lists(c, max_size=3), st.dictionaries(st.sampled_from(["a", "__json_type__", "x"]), c, max_size=2)),
                             max_leaves=4)
        tag = st.one_of(strings, strings, jsonv, scalars, st.just({"absent": True}))
        payload = st.dictionaries(st.sampled_from(["x", "y", "value", "name"]), scalars, max_size=3)
        warm = st.one_of(st.just([]), st.lists(st.sampled_from(WARM), max_size=3))
        via = st.sampled_from([None, None, "base"] + WARM[:5])
        return st.tuples(tag, payload, warm, via).map(lambda p: dict(tag=p[0], payload=p[1], warm=p[2], via=p[3]))

    def run(self, ir) -> Outcome:
        from krrood.adapters import json_serializer as js

        tag = ir["tag"]
        absent = isinstance(tag, dict) and tag.get("absent") is True and len(tag) == 1
        data = dict(ir["payload"])
        if not absent:
            data[js.JSON_TYPE_NAME] = tag
        if not absent and resolves_to_deserialisable(tag):
            return Outcome(rejected=True)
        if absent:
            cls = "absent"
        elif isinstance(tag, str):
            cls = "str_empty" if tag == "" else ("str_dotted" if "." in tag else "str_plain")
        else:
            cls = "json_" + type(tag).__name__ + ("_truthy" if tag else "_falsy")
        classes = [cls]
        if isinstance(tag, str) and tag:
            if tag.startswith("."):
                classes.append("leading_dot")
            if tag.endswith("."):
                classes.append("trailing_dot")
            if ".." in tag:
                classes.append("double_dot")
            mod = tag.rpartition(".")[0]
            if mod in MODULES:
                classes.append("module_importable")
            if "broken_import_module" in tag:
                classes.append("module_raises_ImportError")
        nontrivial = (isinstance(tag, str) and tag != "") or (not isinstance(tag, str) and not absent and bool(tag))
        warm = ir.get("warm") or []
        if warm:
            classes.append("after_successful_deserialisations")
            if isinstance(tag, str) and tag.rpartition(".")[2] in warm:
                classes.append("last_component_names_class_deserialised_before")
            try:
                for name in warm:
                    value = warm_value(name)
                    back = js.from_json(js.to_json(value))
                    if type(back) is not type(value):
                        return Outcome(rejected=True)  # C18's subject
            except Exception:
                return Outcome(rejected=True)
        via = ir.get("via")
        entry = js.from_json
        if via == "base":
            entry = js.SubclassJSONSerializer.from_json
        elif via in WARM[:5]:
            from ..models import json_tree as jt

            entry = jt.CLASSES[via].from_json  # called on a concrete class: the tag decides, not the receiver
            classes.append("called_on_concrete_class")
            if isinstance(tag, str) and tag.rpartition(".")[2] == via:
                classes.append("last_component_names_the_receiving_class")
        try:
            res = entry(data)
        except js.JSONSerializationError as exc:
            want = "MissingTypeError" if absent else (PINNED.get(tag) if isinstance(tag, str) else None)
            if want and type(exc).__name__ != want:
                return fail("wrong_error_class", f"tag={tag!r}: raised {type(exc).__name__}, tests pin {want}",
                            classes=classes, nontrivial=nontrivial)
            return Outcome(nontrivial=nontrivial, classes=classes + ["raises_" + type(exc).__name__])
        except Exception as exc:
            return fail("unrelated_exception", f"tag={tag!r}: {type(exc).__name__}: {exc}",
                        bucket=crash_bucket(exc), classes=classes, nontrivial=nontrivial,
                        features={"exc:" + type(exc).__name__})
        return fail("object_returned", f"tag={tag!r}: from_json returned {res!r}", classes=classes, nontrivial=nontrivial)


CHECK = C19()

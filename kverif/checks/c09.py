"""C09 - result quantifiers enforce exactly the stated solution count.

IR: {"n": satisfying elements, "extra": non-satisfying elements, "shape": "entity"|"set_of"|"two"|"match"|"helper"|"none",
     ("helper": entity(x, x.a < n, y.a >= 0) with a non-selected helper variable over 2 values: every x is a solution
      twice; "none": entity(x.friend, x.a < n) where every friend is None: the solutions are n times None)
     "q": ["an"] | ["the"] | ["exactly",k] | ["atleast",k] | ["atmost",k] | ["range",lo,hi],
     "nested": optional int j - after j results of the evaluation a second evaluation of the same query object is
               run to its end, then the first one is continued}
Oracle: arithmetic on n.
"""
from __future__ import annotations

from hypothesis import strategies as st

from ..core import Check, Outcome, crash, fail


def _constraint_bounds(q):
    """(lower, upper) of a constraint IR, None = unbounded; 'invalid' when construction must fail."""
    tag = q[0]
    if tag == "an":
        return (0, None, None)
    if tag == "the":
        return (1, 1, None)
    if tag == "exactly":
        return (q[1], q[1], "neg" if q[1] < 0 else None)
    if tag == "atleast":
        return (q[1], None, "neg" if q[1] < 0 else None)
    if tag == "atmost":
        return (0, q[1], "neg" if q[1] < 0 else None)
    if tag == "range":
        lo, hi = q[1], q[2]
        if lo < 0 or hi < 0:
            return (lo, hi, "neg")
        if hi < lo:
            return (lo, hi, "inconsistent")
        return (lo, hi, None)
    raise ValueError(q)


class C09(Check):
    id = "C09"
    title = "Result quantifiers enforce exactly the stated solution count"
    rule = (
        "Exhaustive grid: n in 0..7 solutions x every Exactly/AtLeast/AtMost/Range with bounds in -1..8 "
        "x {entity, set_of, two-variable set_of, entity_matching(...)(...) description, entity with a non-selected helper "
        "variable (every selected value is a solution twice), entity over an attribute that is None (n equal solutions)} plus the(...) for every n; then seeded Hypothesis cases "
        "with n up to 60. The number of solutions is produced by a real query (x.a < n over a larger "
        "domain), results are pulled one by one; in part of the cases a second evaluation of the same query object runs to its end "
        "in the middle of the first one and must behave like an evaluation on its own. Non-trivial: a bound is within 1 of n (off-by-one "
        "neighbourhood) or the constraint is rejected at construction. Distinct = distinct IR."
    )
    assumptions = [
        "n is the number of satisfying assignments of a conjunctive single-/two-variable query (C02 fragment), "
        "so the count seen by the quantifier is the oracle's count",
        "GreaterThan.../LessThan... are accepted as isinstance (the(...) must raise the Multiple/NoSolution subclasses)",
    ]
    budget = {
        "quick": dict(examples=60, shards=16, seconds=40),
        "thorough": dict(examples=1500, shards=16, seconds=600),
    }
    exhaustive = True

    def setup_worker(self):
        from krrood.entity_query_language.symbol_graph import SymbolGraph

        from ..models import eql_world, match_world  # noqa: F401

        SymbolGraph().clear()
        SymbolGraph()  # the class diagram has to know the Symbol classes of the pattern-matching shape

    def enumerate(self, tier):
        for shape in ("entity", "set_of", "two", "match", "helper", "none"):
            for n in range(0, 8):
                yield dict(n=n, extra=2, shape=shape, q=["an"])
                yield dict(n=n, extra=1, shape=shape, q=["the"])
                for k in range(-1, 9):
                    for tag in ("exactly", "atleast", "atmost"):
                        yield dict(n=n, extra=2, shape=shape, q=[tag, k])
                        if shape == "entity" and n >= 1 and abs(k - n) <= 1:
                            yield dict(n=n, extra=2, shape=shape, q=[tag, k], nested=0)
                if shape == "entity" or n in (0, 1, 2, 5):
                    for lo in range(-1, 9):
                        for hi in range(-1, 9):
                            yield dict(n=n, extra=1, shape=shape, q=["range", lo, hi])

    def strategy(self, tier, exclude):
        big = 60
        bound = st.integers(-2, big + 2)

        @st.composite
        def ir(draw):
            n = draw(st.integers(0, big))
            near = st.integers(max(-1, n - 2), n + 2)
            b = st.one_of(near, bound)
            q = draw(st.one_of(
                st.just(["an"]), st.just(["the"]),
                st.tuples(st.sampled_from(["exactly", "atleast", "atmost"]), b).map(list),
                st.tuples(st.just("range"), b, b).map(list),
            ))
            out = dict(n=n, extra=draw(st.integers(0, 5)), shape=draw(st.sampled_from(["entity", "set_of", "two", "match", "helper", "none"])), q=q)
            if n >= 1 and q[0] != "the" and draw(st.sampled_from([0, 0, 1])):
                out["nested"] = draw(st.integers(0, min(n - 1, 3)))
            return out

        return ir()

    def run(self, ir) -> Outcome:
        from krrood.entity_query_language.entity import entity, let, set_of
        from krrood.entity_query_language.quantify_entity import an, the
        from krrood.entity_query_language import failures as F
        from krrood.entity_query_language.result_quantification_constraint import (
            AtLeast, AtMost, Exactly, Range)
        from ..models.eql_world import Item

        n, extra, shape, q = ir["n"], ir["extra"], ir["shape"], ir["q"]
        lo, hi, invalid = _constraint_bounds(q)
        classes = [q[0], shape]
        near = any(b is not None and abs(n - b) <= 1 for b in (lo, hi)) or invalid is not None
        out = Outcome(nontrivial=near, classes=classes)

        # ---- construction of the constraint
        constraint = None
        try:
            if q[0] == "exactly":
                constraint = Exactly(q[1])
            elif q[0] == "atleast":
                constraint = AtLeast(q[1])
            elif q[0] == "atmost":
                constraint = AtMost(q[1])
            elif q[0] == "range":
                constraint = Range(AtLeast(q[1]), AtMost(q[2]))
        except F.NegativeQuantificationError:
            if invalid == "neg":
                out.classes.append("rejected_negative")
                return out
            return fail("wrong_construction_error", f"{q}: NegativeQuantificationError for non-negative bounds", classes=classes)
        except F.QuantificationConsistencyError:
            if invalid == "inconsistent":
                out.classes.append("rejected_inconsistent")
                return out
            return fail("wrong_construction_error", f"{q}: QuantificationConsistencyError but bounds are consistent", classes=classes)
        except Exception as exc:
            return crash(exc, f"constructing {q}", classes=classes)
        if invalid is not None:
            return fail("invalid_constraint_accepted", f"{q} ({invalid}) was accepted at construction",
                        bucket=f"accepted_{invalid}", classes=classes)

        # ---- the query with exactly n solutions
        multiplicity = 1
        try:
            if shape == "two":
                # n = nx * ny with ny in {1,2} when possible
                ny = 2 if (n % 2 == 0 and n > 0) else 1
                nx = n // ny if n else 0
                xs = [Item(a=i) for i in range(nx + extra)]
                ys = [Item(a=0, b=j) for j in range(ny)] + [Item(a=1)]
                x, y = let(Item, xs), let(Item, ys)
                desc = set_of([x, y], x.a < nx, y.a == 0)
                expected = {(id(xs[i]), id(ys[j])) for i in range(nx) for j in range(ny)}
                row = lambda r: (id(r[x]), id(r[y]))
            elif shape == "helper":
                xs = [Item(a=i) for i in range(n + extra)]
                ys = [Item(a=0), Item(a=1)]
                x, y = let(Item, xs), let(Item, ys)
                desc = entity(x, x.a < n, y.a >= 0)
                row = lambda r: (id(r),)
                expected = {(id(xs[i]),) for i in range(n)}
                multiplicity = 2
            elif shape == "none":
                xs = [Item(a=i) for i in range(n + extra)]
                x = let(Item, xs)
                desc = entity(x.friend, x.a < n)
                row = lambda r: (r,)
                expected = {(None,)} if n else set()
                multiplicity = None  # n solutions that are all the same value
            elif shape == "match":
                from krrood.entity_query_language.match import entity_matching

                from ..models.match_world import Part

                xs = [Part(tag=0 if i < n else 1, label=str(i)) for i in range(n + extra)]
                desc = entity_matching(Part, xs)(tag=0)
                expected = {(id(xs[i]),) for i in range(n)}
                row = lambda r: (id(r),)
            else:
                xs = [Item(a=i) for i in range(n + extra)]
                x = let(Item, xs)
                if shape == "entity":
                    desc = entity(x, x.a < n)
                    row = lambda r: (id(r),)
                else:
                    desc = set_of([x], x.a < n)
                    row = lambda r: (id(r[x]),)
                expected = {(id(xs[i]),) for i in range(n)}
            assert multiplicity != 1 or len(expected) == n
            if multiplicity == 2:
                n = 2 * n  # every selected value is a solution once per value of the helper variable
            query = the(desc) if q[0] == "the" else an(desc, quantification=constraint)
        except Exception as exc:
            return crash(exc, "building query", classes=classes)

        # ---- evaluation
        got, raised = [], None
        inner = None  # (results, raised) of a second evaluation of the same query object run in the middle of the first
        nested_at = ir.get("nested")
        try:
            if q[0] == "the":
                got.append(row(query.evaluate()))
            else:
                for r in query.evaluate():
                    got.append(row(r))
                    if nested_at is not None and len(got) == nested_at + 1 and inner is None:
                        inner = ([], None)
                        try:
                            for r2 in query.evaluate():
                                inner[0].append(row(r2))
                        except F.QuantificationNotSatisfiedError as exc2:
                            inner = (inner[0], exc2)
        except F.QuantificationNotSatisfiedError as exc:
            raised = exc
        except Exception as exc:
            return crash(exc, f"evaluating {ir}", classes=classes)
        if inner is not None:
            out.classes.append("second_evaluation_inside_the_first")

        def bad(kind, msg):
            return fail(kind, f"{ir}: {msg}; yielded={len(got)} raised={type(raised).__name__ if raised else None}",
                        classes=classes, nontrivial=near)

        if (multiplicity == 1 and len(set(got)) != len(got)) or not set(got) <= expected:
            return bad("wrong_results", "results are not distinct solutions of the query")
        if multiplicity == 2 and any(got.count(g) > 2 for g in set(got)):
            return bad("wrong_results", "a solution was produced more often than the helper variable has values")
        if hi is not None and len(got) > hi:
            return bad("yielded_beyond_upper_bound", f"more than {hi} results were yielded")
        if hi is not None and n > hi:
            want = F.MultipleSolutionFound if q[0] == "the" else F.GreaterThanExpectedNumberOfSolutions
            if not isinstance(raised, want):
                return bad("missing_greater_error", f"n={n} > upper={hi} must raise {want.__name__}")
            out.classes.append("too_many")
            return self.judge_inner(ir, inner, expected, lo, hi, n, out, F)
        if n < lo:
            want = F.NoSolutionFound if q[0] == "the" else F.LessThanExpectedNumberOfSolutions
            if not isinstance(raised, want):
                return bad("missing_less_error", f"n={n} < lower={lo} must raise {want.__name__}")
            out.classes.append("too_few")
            return self.judge_inner(ir, inner, expected, lo, hi, n, out, F)
        if raised is not None:
            return bad("spurious_error", f"constraint satisfied by n={n} but an error was raised")
        if set(got) != expected or len(got) != n:
            return bad("wrong_results", f"constraint satisfied: expected all {n} solutions")
        out.classes.append("satisfied")
        return self.judge_inner(ir, inner, expected, lo, hi, n, out, F)

    @staticmethod
    def judge_inner(ir, inner, expected, lo, hi, n, out, F):
        """the evaluation that ran inside the first one must behave like an evaluation on its own"""
        if inner is None:
            return out
        got, raised = inner
        ok = set(got) <= expected
        if hi is not None and n > hi:
            ok = ok and len(got) <= hi and isinstance(raised, F.GreaterThanExpectedNumberOfSolutions)
        elif n < lo:
            ok = ok and isinstance(raised, F.LessThanExpectedNumberOfSolutions)
        else:
            ok = ok and raised is None and set(got) == expected and len(got) == n
        if not ok:
            return fail("nested_evaluation_differs", f"{ir}: the evaluation started inside another evaluation of the same query yielded "
                                                     f"{len(got)} results and raised {type(raised).__name__ if raised else None}",
                        classes=out.classes, nontrivial=out.nontrivial)
        return out


CHECK = C09()

"""C15 - property-descriptor inference reaches the full closure in any assertion order.

IR: {"pop":[{"cls","agent"?}], "steps":[{"s":i,"f":field,"t":[j..],"form":"assign"|"append"|"add"|"assign_container"}],
     "ontology":"harness"}
"""
from __future__ import annotations

from hypothesis import strategies as st

from ..core import Check, Outcome, crash, fail
from ..onto import model as M


def gen_population(draw, max_orgs=4, max_agents=3, max_bosses=2, allow_fellow=False):
    n_org = draw(st.integers(2, max_orgs))
    n_ag = draw(st.integers(1, max_agents))
    pop = [{"cls": "Org"} for _ in range(n_org)] + [
        {"cls": draw(st.sampled_from(["Agent", "Agent", "Fellow"])) if allow_fellow else "Agent"} for _ in range(n_ag)]
    for _ in range(draw(st.integers(0, max_bosses))):
        pop.append({"cls": "Boss", "agent": n_org + draw(st.integers(0, n_ag - 1))})
    return pop


def candidate_facts(pop, employer):
    orgs = [i for i, p in enumerate(pop) if p["cls"] == "Org"]
    agents = [i for i, p in enumerate(pop) if p["cls"] in ("Agent", "Fellow")]
    bosses = [i for i, p in enumerate(pop) if p["cls"] == "Boss"]
    out = []
    for a in agents:
        out.append((a, "works_for", employer[a]))
        for o in orgs:
            out += [(a, "member_of", o), (a, "affiliated_with", o), (o, "members", a)]
            if pop[a]["cls"] == "Fellow":
                out.append((a, "connected_to", o))
    for b in bosses:
        out.append((b, "head_of", employer[pop[b]["agent"]]))
        out.append((employer[pop[b]["agent"]], "headed_by", b))  # the same fact asserted from the inverse side
    for o in orgs:
        for o2 in orgs:
            out += [(o, "part_of", o2), (o, "has_part", o2), (o, "linked_to", o2)]
    return out


class C15(Check):
    id = "C15"
    title = "Property-descriptor inference reaches the full closure in any assertion order"
    rule = (
        "Hypothesis draws a population (2-4 orgs, 1-3 agents, 0-2 roles over agents) of the harness ontology "
        "(4-level sub-property chain with the top levels on the role taker and the field of the top-most property only in a subclass, inverse pair, transitive property, "
        "transitive inverse pair; single-, list- and set-valued managed fields), a set of 1-8 base facts and a "
        "permutation with a write form per fact (single-valued assignment, first assignment of a container, "
        "append/add). Oracle: a reference fixpoint closure over fact triples; after every step (every prefix is a "
        "sequence of assertions) the symbol graph's relations and every managed field must equal the closure of "
        "the facts asserted so far. Non-trivial: the closure is strictly larger than the base facts and the "
        "history has >= 3 facts. Distinct = distinct IR."
    )
    assumptions = [
        "histories are monotone (no retraction): each single-valued field is assigned once, a container is assigned only while the field is still empty in the closure so far",
        "the fact set is functional on single-valued fields by construction (every agent has one employer used by works_for and by the head_of of its roles)",
        "instances are eq=False, so objects meeting in one managed set are pairwise unequal; fields are compared with the closure as sets",
        "the reference closure encodes the declared semantics of the harness ontology as tables written independently of krrood's introspection",
    ]
    budget = {
        "quick": dict(examples=400, shards=16, seconds=75),
        "thorough": dict(examples=6000, shards=16, seconds=1200),
    }

    def setup_worker(self):
        from ..models import ontology  # noqa: F401

        M.reset_graph()

    def strategy(self, tier, exclude):
        @st.composite
        def ir(draw):
            pop = gen_population(draw, allow_fellow=True)
            orgs = [i for i, p in enumerate(pop) if p["cls"] == "Org"]
            employer = {i: draw(st.sampled_from(orgs)) for i, p in enumerate(pop) if p["cls"] in ("Agent", "Fellow")}
            cands = candidate_facts(pop, employer)
            n = draw(st.integers(1, 8 if tier == "quick" else 12))
            idxs = draw(st.lists(st.integers(0, len(cands) - 1), min_size=1, max_size=n, unique=True))
            steps = []
            for k in idxs:
                s, f, t = cands[k]
                kind = M.FIELDS[(pop[s]["cls"], f)][1]
                if kind == "single":
                    form = "assign"
                elif kind == "list":
                    form = draw(st.sampled_from(["append", "append", "assign_container"]))
                else:
                    form = draw(st.sampled_from(["add", "add", "assign_container"]))
                steps.append({"s": s, "f": f, "t": [t], "form": form})
            return {"pop": pop, "steps": steps}

        return ir()

    def run(self, ir) -> Outcome:
        M.reset_graph()
        pop = ir["pop"]
        try:
            inst, classes, taker = M.make_population(pop)
        except Exception as exc:
            return crash(exc, "creating population")
        facts = []
        descs = set()
        forms = set()
        for n_step, st_ in enumerate(ir["steps"]):
            s, f, ts, form = st_["s"], st_["f"], st_["t"], st_["form"]
            so_far = M.closure(facts, classes, taker)
            if form == "assign_container" and any(x[0] == s and x[1] == f for x in so_far):
                form = "append" if M.FIELDS[(classes[s], f)][1] == "list" else "add"  # retraction is outside the statement
            forms.add(form)
            descs.add(M.FIELDS[(classes[s], f)][0])
            try:
                obj = inst[s]
                if form == "assign":
                    setattr(obj, f, inst[ts[0]])
                elif form == "append":
                    getattr(obj, f).append(inst[ts[0]])
                elif form == "add":
                    getattr(obj, f).add(inst[ts[0]])
                elif form == "assign_container":
                    kind = M.FIELDS[(classes[s], f)][1]
                    setattr(obj, f, [inst[t] for t in ts] if kind == "list" else {inst[t] for t in ts})
            except Exception as exc:
                return crash(exc, f"step {n_step} {st_}", classes=sorted(descs))
            facts += [(s, f, t) for t in ts]
            want = M.closure(facts, classes, taker)
            graph, fields, lists = M.observe(inst)
            cls_list = sorted(descs) + sorted(forms)
            nontrivial = len(want) > len(set(facts)) and len(facts) >= 3
            for name, got in (("graph", graph), ("fields", fields)):
                if got != want:
                    missing, extra = want - got, got - want
                    kind = f"{name}_missing_fact" if missing and not extra else (f"{name}_extra_fact" if extra and not missing else f"{name}_differs")
                    lab = lambda tr: tuple(f"{classes[x]}{x}" if isinstance(x, int) else x for x in tr)
                    return fail(kind, f"after step {n_step} {st_}: missing={sorted(map(lab, missing))[:5]} extra={sorted(map(lab, extra))[:5]}",
                                classes=cls_list, nontrivial=nontrivial, bucket=",".join(sorted({M.FIELDS[(classes[x[0]], x[1])][0] for x in (missing | extra) if isinstance(x[0], int)})))
        want = M.closure(facts, classes, taker)
        cls_list = sorted(descs) + sorted(forms)
        if any(classes[s] == "Boss" for s, _, _ in facts):
            cls_list.append("role")
        trans = [(s, t) for s, f, t in facts if M.FIELDS[(classes[s], f)][0] in M.TRANSITIVE]
        if any(s == t for s, t in trans) or any((t, s) in trans for s, t in trans if s != t):
            cls_list.append("cycle")
        nontrivial = len(want) > len(set(facts)) and len(facts) >= 3
        return Outcome(nontrivial=nontrivial, classes=cls_list)


CHECK = C15()

"""C01 - EQL answers are exactly the satisfying assignments (sound and complete)."""
from __future__ import annotations

from ..core import Check, Outcome, crash, fail
from ..eql import gen, lang, run
from ..eql.features import query_features, query_classes


class C01(Check):
    id = "C01"
    title = "EQL answers are exactly the satisfying assignments (sound and complete)"
    rule = (
        "Hypothesis draws a world of 1-6 harness objects (value-equal twins frequent, falsy values 0/''/[]/None "
        "included), 1-3 (thorough: 4) variables with domains of 0-4 elements (lists or one-shot generators, "
        "wrong-typed noise elements), a condition forest of depth <=3 (4) over comparisons, membership, indexing, "
        "calls, attribute chains, flatten, HasType, a Predicate, a @symbolic_function, and_/or_/not_ in any "
        "nesting, exists/for_all, nested an/the sub-queries, and a selection of variables/derived expressions "
        "via entity or set_of. Oracle: brute-force first-order evaluation over the Cartesian product of the "
        "type-filtered domains; the set of rows must be equal in both directions. Non-trivial: the oracle's "
        "answer is non-empty and at least one assignment is rejected. Distinct = distinct IR."
    )
    assumptions = [
        "exists(v,c) only with v and c's other variables local to the quantifier, or v outer and helpers local (semi-join) - the region where both documented readings agree",
        "for_all(u,c): u's underlying variable is local to the quantifier",
        "==/!= never between two iterables (the engine compares those as sets by design)",
        "indexing/attribute chains only on data where plain Python does not raise (tags[0] only if every tags list is non-empty, etc.)",
        "the(...) sub-queries only when they have exactly one answer",
        "rows are compared as sets (multiplicity is C02's subject)",
    ]
    budget = {
        "quick": dict(examples=500, shards=16, seconds=75),
        "thorough": dict(examples=20000, shards=16, seconds=1200),
    }

    def cfg(self, tier, exclude):
        c = gen.Cfg()
        if tier == "thorough":
            c.max_vars, c.depth = 4, 4
        gen.apply_exclusions(c, exclude)
        return c

    def strategy(self, tier, exclude):
        return gen.query_ir(self.cfg(tier, exclude))

    def static_features(self, ir):
        return query_features(ir)

    def run(self, ir) -> Outcome:
        objs = lang.build_world(ir["world"])
        oracle = lang.Oracle(ir, objs, hooks=run.hooks())
        if not run.the_subqueries_ok(ir, oracle):
            return Outcome(rejected=True)
        want, total, sat = oracle.answer()
        classes = query_classes(ir)
        nontrivial = bool(want) and sat < total
        classes.append("answer_empty" if not want else ("answer_all" if sat == total else "answer_proper_subset"))
        fbucket = ",".join(sorted(query_features(ir)))
        try:
            got, _ = run.evaluate(ir, objs)
        except Exception as exc:
            return crash(exc, "evaluating query", classes=classes, nontrivial=nontrivial)
        extra = set(got) - set(want)
        missing = set(want) - set(got)
        if extra and missing:
            return fail("extra_and_missing_rows", f"extra={sorted(extra)[:3]} missing={sorted(missing)[:3]} want={len(want)} got={len(got)}",
                        classes=classes, nontrivial=nontrivial, bucket=fbucket)
        if extra:
            return fail("extra_row", f"extra={sorted(extra)[:4]} want={len(want)} got={len(got)}", classes=classes, nontrivial=nontrivial, bucket=fbucket)
        if missing:
            return fail("missing_row", f"missing={sorted(missing)[:4]} want={len(want)} got={len(got)}", classes=classes, nontrivial=nontrivial, bucket=fbucket)
        return Outcome(nontrivial=nontrivial, classes=classes)


CHECK = C01()

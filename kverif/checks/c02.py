"""C02 - no duplicated or dropped solutions in the conjunctive / else-if fragment."""
from __future__ import annotations

from collections import Counter

from ..core import Check, Outcome, crash, fail
from ..eql import gen, lang, run
from ..eql.features import query_classes, query_features


def _or_nodes(ir):
    for c in ir["conds"]:
        for n in lang.walk_conds(c):
            if n["c"] == "or":
                yield n


class C02(Check):
    id = "C02"
    title = "No duplicated or dropped solutions in conjunctive / else-if queries"
    rule = (
        "Hypothesis draws queries restricted by construction to the fragment the property names: comparisons, "
        "membership, boolean calls, predicates and negated atoms combined with and_, and or_ only between operands "
        "written over the same variable set; 1-4 variables, domains 0-4 with value-equal twins and repeated "
        "elements excluded (a repeated element is the same assignment), any selection of plain variables. "
        "Oracle: multiset of selection(sigma) over satisfying assignments of the query's variables must equal the "
        "multiset of results; the(...) succeeds iff the count is 1 (else NoSolutionFound/MultipleSolutionFound), "
        "an(.., Exactly(n)) passes iff n is the oracle's count. Non-trivial: >=2 satisfying assignments and "
        "either an or_ with an assignment satisfying two operands, or a variable shared by >=2 atoms in a "
        ">=2-variable query. Distinct = distinct IR."
    )
    assumptions = [
        "the fragment is defined on the query as written (or_ operands over the same variable set), not on the node type krrood builds",
        "every variable of the query is selected, so that one result corresponds to one assignment (a projection may merge assignments)",
        "domains contain each object at most once (a domain is a set of candidate values)",
        "partial operations (indexing, attributes of references) only where plain Python does not raise",
    ]
    budget = {
        "quick": dict(examples=450, shards=16, seconds=75),
        "thorough": dict(examples=20000, shards=16, seconds=1200),
    }

    def cfg(self, tier, exclude):
        c = gen.Cfg(fragment="c02", allow_quantifiers=False, allow_subquery=False, allow_flatten=False,
                    allow_derived_selection=False, allow_noise=True, unique_domains=True)
        c.max_vars = 4 if tier == "thorough" else 3
        gen.apply_exclusions(c, exclude)
        return c

    def strategy(self, tier, exclude):
        return gen.query_ir(self.cfg(tier, exclude)).map(_select_all_query_vars)

    def static_features(self, ir):
        f = query_features(ir)
        for n in _or_nodes(ir):
            if any(m["c"] in ("pred", "symfn", "hastype") for x in n["xs"] for m in lang.walk_conds(x)):
                f.add("or_with_predicate")
        return f

    def run(self, ir) -> Outcome:
        from krrood.entity_query_language import failures as F
        from krrood.entity_query_language.quantify_entity import an, the
        from krrood.entity_query_language.result_quantification_constraint import Exactly

        objs = lang.build_world(ir["world"])
        oracle = lang.Oracle(ir, objs)
        want, total, sat = oracle.answer()
        n = sum(want.values())
        classes = query_classes(ir) + [f"solutions{min(n, 5)}"]
        # non-triviality
        overlap = False
        for s in oracle.assignments():
            if all(oracle.holds(c, s) for c in ir["conds"]):
                for o in _or_nodes(ir):
                    if sum(1 for x in o["xs"] if oracle.holds(x, s)) >= 2:
                        overlap = True
        refs = [r for r in lang.query_refs(ir)]
        shared = False
        if len(refs) >= 2:
            cnt = Counter()
            for c in ir["conds"]:
                for a in lang.walk_conds(c):
                    if a["c"] not in ("and", "or", "not"):
                        for r in lang.cond_refs(a):
                            cnt[r] += 1
            shared = any(v >= 2 for v in cnt.values())
        nontrivial = n >= 2 and (overlap or shared)
        if overlap:
            classes.append("or_operands_overlap")
        fb = ",".join(sorted(self.static_features(ir)))
        try:
            got, b = run.evaluate(ir, objs)
        except Exception as exc:
            return crash(exc, "evaluating query", classes=classes, nontrivial=nontrivial)
        if got != want:
            dup = {k: v for k, v in got.items() if v > want.get(k, 0)}
            drop = {k: v for k, v in want.items() if v > got.get(k, 0)}
            kind = "duplicated_solution" if dup and not drop else ("dropped_solution" if drop and not dup else "duplicated_and_dropped")
            return fail(kind, f"want={dict(want)} got={dict(got)}"[:800], classes=classes, nontrivial=nontrivial, bucket=fb)
        # consequences: the(...) and Exactly(n) on fresh identical queries
        try:
            b2 = lang.Builder(ir, lang.build_world(ir["world"]), hooks=run.hooks())
            b2.query()
            try:
                r = the(b2.desc).evaluate()
                outcome = "one"
            except F.NoSolutionFound:
                outcome = "none"
            except F.MultipleSolutionFound:
                outcome = "many"
            expect = "one" if n == 1 else ("none" if n == 0 else "many")
            if outcome != expect:
                return fail("the_disagrees_with_count", f"{n} solutions but the(...) -> {outcome}", classes=classes,
                            nontrivial=nontrivial, bucket=fb)
            for k in {n, max(0, n - 1), n + 1}:
                b3 = lang.Builder(ir, lang.build_world(ir["world"]), hooks=run.hooks())
                b3.query()
                try:
                    res = list(an(b3.desc, quantification=Exactly(k)).evaluate())
                    ok = True
                except F.QuantificationNotSatisfiedError:
                    ok = False
                if ok != (k == n):
                    return fail("exactly_disagrees_with_count", f"{n} solutions, Exactly({k}) -> {'passes' if ok else 'raises'}",
                                classes=classes, nontrivial=nontrivial, bucket=fb)
        except Exception as exc:
            return crash(exc, "the/Exactly consequences", classes=classes, nontrivial=nontrivial)
        return Outcome(nontrivial=nontrivial, classes=classes)


def _select_all_query_vars(ir):
    """one result per satisfying assignment of the query's variables: select every variable the conditions use
    (plus the drawn selection)"""
    refs = set()
    for c in ir["conds"]:
        lang.cond_refs(c, refs)
    terms = list(ir["sel"]["terms"])
    have = {(t["t"], t["i"]) for t in terms}
    for r in sorted(refs):
        if r not in have:
            terms.append({"t": r[0], "i": r[1]})
    ir = dict(ir)
    ir["sel"] = {"kind": "set_of" if len(terms) > 1 else ir["sel"]["kind"], "terms": terms}
    return ir


CHECK = C02()

"""C07 - an EQL query translated to SQL selects the same entities as in-memory evaluation.

IR: {"model", "graph", "queries": [Q...]}
 Q = {"var": class index, "quant": "an"|"the", "conds": [Cond...], "var2": class index | None}
 Cond: {"c":"cmp","path":[fields],"op","lit":{"k","v"}}            attribute chain vs literal
       {"c":"in","path","lits":[..],"form":"in"|"contains"}        membership in a literal container
       {"c":"substr","path","s","form"}                             substring of a str column
       {"c":"and"|"or","xs":[..]} | {"c":"not","x":Cond}
       {"c":"join","lpath":[..ref],"rpath":[..ref]}                 x.<..>.ref == y.<..>.ref   (two variables)
       {"c":"cmp2","lpath","op","rpath"}                            x.<scalar> op y.<scalar>   (two variables)
       {"c":"objlit","path":[..ref],"node":index,"op":"=="|"!="}    reference compared with a concrete object
"""
from __future__ import annotations

import operator

from hypothesis import strategies as st

from .. import modelir as MI
from .. import ormgraph as G
from ..core import Check, Outcome, crash, fail

OPS = {"==": operator.eq, "!=": operator.ne, "<": operator.lt, "<=": operator.le, ">": operator.gt, ">=": operator.ge}
CMP_SCALARS = ("int", "float", "str", "bool")
OPTIONAL_SCALARS = True  # optional scalar columns can hold NULL


def scalar_paths(model, ci, max_hops=2):
    """all attribute chains from class ci over <= max_hops single-valued references to a comparable scalar"""
    out = []

    def rec(c, path, hops):
        for f in MI.all_fields(model, c):
            if f["name"].startswith("_"):
                continue
            t = f["t"]
            if t["k"] in CMP_SCALARS:
                out.append((path + [f["name"]], t["k"]))
            elif OPTIONAL_SCALARS and t["k"] == "opt" and t["of"]["k"] in CMP_SCALARS:
                out.append((path + [f["name"]], t["of"]["k"]))  # the column can hold NULL
            elif t["k"] == "ref" and hops < max_hops:
                rec(t["c"], path + [f["name"]], hops + 1)
            elif t["k"] == "opt" and t["of"]["k"] == "ref" and hops < max_hops:
                rec(t["of"]["c"], path + [f["name"]], hops + 1)

    rec(ci, [], 0)
    return out


def ref_paths(model, ci, max_hops=2):
    """chains ending in a single-valued reference: (path, target class)"""
    out = []

    def rec(c, path, hops):
        for f in MI.all_fields(model, c):
            if f["name"].startswith("_"):
                continue
            t = f["t"]
            tgt = t["c"] if t["k"] == "ref" else (t["of"]["c"] if t["k"] == "opt" and t["of"]["k"] == "ref" else None)
            if tgt is None:
                continue
            out.append((path + [f["name"]], tgt))
            if hops + 1 < max_hops:
                rec(tgt, path + [f["name"]], hops + 1)

    rec(ci, [], 0)
    return out


def walk(c):
    yield c
    if c["c"] in ("and", "or"):
        for x in c["xs"]:
            yield from walk(x)
    elif c["c"] == "not":
        yield from walk(c["x"])


def join_over_none_ends(model, graph, ci, lpath, c2, rpath):
    """some x of class ci and some y of class c2 both have None at the joined relationship end (None == None holds in
    Python, NULL = NULL does not in SQL)"""
    def has_none(c, name):
        return any(nd["c"] not in G.EXTRA_NODES and (nd["c"] == c or c in MI.ancestors(model, nd["c"])) and nd["v"].get(name) is None
                   for nd in graph["nodes"])
    return len(lpath) == 1 and len(rpath) == 1 and has_none(ci, lpath[0]) and has_none(c2, rpath[0])


@st.composite
def c07_ir(draw, tier, exclude):
    model = draw(MI.model_ir(max_classes=4, grammar="orm", extras=False, uid=True, allow_underscore=False, allow_set=False,
                             chain_bias=True))
    graph = draw(G.graph_ir(model, max_nodes=10, sql=True))
    n_cls = len(model["classes"])
    queries = []
    for _ in range(4 if tier == "quick" else 8):
        ci = draw(st.integers(0, n_cls - 1))
        outside_a_deep_hierarchy = [c for c in range(n_cls) if any(
            len(MI.ancestors(model, c2)) >= 2 and c2 != c and c not in MI.ancestors(model, c2) and c2 not in MI.ancestors(model, c)
            and not set(MI.ancestors(model, c2)) & set(MI.ancestors(model, c)) for c2 in range(n_cls))]
        if outside_a_deep_hierarchy and draw(st.booleans()):
            ci = draw(st.sampled_from(outside_a_deep_hierarchy))
        sp = scalar_paths(model, ci)
        rp = ref_paths(model, ci)
        var2 = None

        def lit(kind):
            if kind == "int":
                return draw(st.integers(-3, 4))
            if kind == "float":
                return draw(st.sampled_from([0.0, 0.5, -1.25, 3.0, 1.0]))
            if kind == "str":
                return draw(st.sampled_from(["", "a", "A b", "A b", "é", "x", "2024-05-17"]))
            return draw(st.booleans())

        def atom():
            nonlocal var2
            kinds = ["cmp", "cmp", "cmp", "in", "substr"]
            if rp and "object_literal" not in exclude:
                kinds.append("objlit")
            if "two_variable_query" not in exclude:
                kinds += ["join", "cmp2"]
            k = draw(st.sampled_from(kinds))
            if k == "join" and rp:
                c2 = var2 if var2 is not None else draw(st.integers(0, n_cls - 1))
                lp, lt = draw(st.sampled_from(rp))
                cands = [(p, t) for p, t in ref_paths(model, c2) if t == lt and len(p) == 1]
                if "join_over_none_ends" in exclude:
                    cands = [(p, t) for p, t in cands if not join_over_none_ends(model, graph, ci, lp, c2, p)]
                if cands and len(lp) == 1:
                    var2 = c2
                    return {"c": "join", "lpath": lp, "rpath": draw(st.sampled_from(cands))[0]}
            if k == "cmp2" and sp:
                c2 = var2 if var2 is not None else draw(st.integers(0, n_cls - 1))
                lp, lk = draw(st.sampled_from(sp))
                cands = [p for p, kk in scalar_paths(model, c2) if kk == lk]
                # columns the second variable inherits from far up its hierarchy are drawn more often
                anc = MI.ancestors(model, c2)
                far = [p for p in cands if len(p) == 1 and len(anc) >= 2 and any(f["name"] == p[0] for a in anc[1:] for f in model["classes"][a]["fields"])]
                if cands:
                    var2 = c2
                    return {"c": "cmp2", "lpath": lp, "op": draw(st.sampled_from(sorted(OPS))), "rpath": draw(st.sampled_from(cands + far * 3))}
            if k == "objlit" and rp:
                p, tgt = draw(st.sampled_from(rp))
                nodes = [i for i, nd in enumerate(graph["nodes"]) if nd["c"] not in G.EXTRA_NODES and (nd["c"] == tgt or tgt in MI.ancestors(model, nd["c"]))]
                if nodes:
                    return {"c": "objlit", "path": p, "node": draw(st.sampled_from(nodes)), "op": draw(st.sampled_from(["==", "!="]))}
            if not sp:
                return {"c": "cmp", "path": ["uid"], "op": draw(st.sampled_from(sorted(OPS))), "lit": {"k": "int", "v": draw(st.integers(0, 5))}}
            p, kind = draw(st.sampled_from(sp))
            if k == "in":
                return {"c": "in", "path": p, "lits": [lit(kind) for _ in range(draw(st.sampled_from([0, 1, 1, 1, 2, 3])))], "form": draw(st.sampled_from(["in", "contains"]))}
            if k == "substr":
                strs = [(q, kk) for q, kk in sp if kk == "str"]
                if strs:
                    q, _ = draw(st.sampled_from(strs))
                    return {"c": "substr", "path": q, "s": draw(st.sampled_from(["a", "A", "x", "b", "é"])), "form": draw(st.sampled_from(["in", "contains"]))}
            ops = sorted(OPS) if kind != "bool" else ["==", "!="]
            return {"c": "cmp", "path": p, "op": draw(st.sampled_from(ops)), "lit": {"k": kind, "v": lit(kind)}}

        def cond(depth):
            k = draw(st.sampled_from(["atom", "atom", "and", "or"] + (["not"] if depth > 0 else []))) if depth > 0 else "atom"
            if k == "atom":
                return atom()
            if k == "not":
                return {"c": "not", "x": cond(depth - 1)}
            return {"c": k, "xs": [cond(depth - 1) for _ in range(draw(st.integers(2, 3)))]}

        conds = [cond(draw(st.integers(0, 2))) for _ in range(draw(st.sampled_from([0, 1, 1, 1, 2])))]
        # the join form between two variables needs two classes with a reference to a common target; when the model
        # has such a pair it is used often, otherwise it would be a rare accident
        if "two_variable_query" not in exclude and var2 is None and draw(st.sampled_from([0, 1])):
            pairs = [(lp, c2, p2) for lp, lt in rp if len(lp) == 1 for c2 in range(n_cls) if c2 != ci
                     and ci not in MI.ancestors(model, c2) and c2 not in MI.ancestors(model, ci)
                     for p2, t2 in ref_paths(model, c2) if t2 == lt and len(p2) == 1]
            if "join_over_none_ends" in exclude:
                pairs = [(lp, c2, p2) for lp, c2, p2 in pairs if not join_over_none_ends(model, graph, ci, lp, c2, p2)]
            if pairs:
                lp, c2, p2 = draw(st.sampled_from(pairs))
                var2 = c2
                conds.insert(0, {"c": "join", "lpath": lp, "rpath": p2})
        # the same between a class and one of its sub- or superclasses (the two variables share tables: the translator
        # has to reject it whichever of them is written on the left)
        if "two_variable_query" not in exclude and var2 is None and draw(st.sampled_from([0, 0, 1])):
            related = [(lp, c2, p2) for lp, lt in rp if len(lp) == 1 for c2 in range(n_cls) if c2 != ci
                       and (ci in MI.ancestors(model, c2) or c2 in MI.ancestors(model, ci))
                       for p2, t2 in ref_paths(model, c2) if t2 == lt and len(p2) == 1]
            if "join_over_none_ends" in exclude:
                related = [(lp, c2, p2) for lp, c2, p2 in related if not join_over_none_ends(model, graph, ci, lp, c2, p2)]
            if related:
                lp, c2, p2 = draw(st.sampled_from(related))
                var2 = c2
                conds.insert(0, {"c": "join", "lpath": lp, "rpath": p2})
        joined = any(c["c"] == "join" for c in conds)
        # a comparison with a column that the second variable inherits from far up its hierarchy needs a class two
        # levels below a root and a first variable outside that hierarchy; when the model has such a pair it is used often
        if "two_variable_query" not in exclude and var2 is None and sp and draw(st.sampled_from([0, 1])):
            deep = [c2 for c2 in range(n_cls) if len(MI.ancestors(model, c2)) >= 2 and c2 != ci
                    and ci not in MI.ancestors(model, c2) and c2 not in MI.ancestors(model, ci)
                    and not set(MI.ancestors(model, c2)) & set(MI.ancestors(model, ci))]
            if deep:
                c2 = draw(st.sampled_from(deep))
                lp, lk = draw(st.sampled_from([(p_, k_) for p_, k_ in sp if len(p_) == 1] or sp))
                far = [p_ for p_, kk in scalar_paths(model, c2) if kk == lk and len(p_) == 1
                       and any(f["name"] == p_[0] for a in MI.ancestors(model, c2)[1:] for f in model["classes"][a]["fields"])]
                if far and len(lp) == 1:
                    var2 = c2
                    conds.insert(0, {"c": "cmp2", "lpath": lp, "op": draw(st.sampled_from(sorted(OPS))), "rpath": draw(st.sampled_from(far))})
        # the(...) over a join: an entity with several join partners is several solutions
        quant = draw(st.sampled_from(["an", "the"] if joined else ["an", "an", "an", "the"]))
        queries.append({"var": ci, "quant": quant, "conds": conds, "var2": var2})
    return {"model": model, "graph": graph, "queries": queries}


def query_features(q):
    f = set()
    for c in q["conds"]:
        for n in walk(c):
            if n["c"] == "objlit":
                f.add("object_literal")
            if n["c"] in ("join", "cmp2"):
                f.add("two_variable_query")
            if n["c"] == "cmp2":
                f.add("two_variable_scalar_comparison")
            if n["c"] == "join":
                f.add("relationship_join")
            if n["c"] == "not":
                f.add("negation")
            if n["c"] in ("cmp", "in", "substr") and len(n["path"]) > 1:
                f.add(f"path_across_{len(n['path']) - 1}_relationships")
    return f


class C07(Check):
    id = "C07"
    title = "An EQL query translated to SQL selects the same entities as in-memory evaluation"
    rule = (
        "Hypothesis draws a model, a persisted object graph of 1-10 objects and 4-8 queries over it: comparisons of "
        "attribute chains (scalar, across one or two relationships) with literals, in_/contains with literal "
        "containers and strings, and_/or_ nesting, not_, joins between two variables (relationship ends and "
        "scalars), subclass-typed variables, object-valued literals, an and the. Every variable's domain is the "
        "list of all persisted objects of its type. Oracle: differential - identities of query.evaluate() mapped to "
        "database keys through the ToDAOState memo versus the keys of eql_to_sql(query, session).evaluate() in a "
        "fresh session, as sets; the(...) must succeed with the same entity or fail in both worlds "
        "(NoSolutionFound <-> NoResultFound, MultipleSolutionFound <-> MultipleResultsFound). An "
        "EQLTranslationError is a rejection (allowed, counted); any other exception or a different row set is a "
        "discrepancy. Non-trivial: the translator accepted the query and the in-memory answer is non-empty and not "
        "the whole table. Distinct = distinct (model, graph, query)."
    )
    assumptions = [
        "attribute paths are only compared on data where no reference along the path is None for any object of the domain (plain Python would raise; in memory only a short circuit may hide it, SQL uses inner joins)",
        "the second variable of a two-variable query has a non-empty domain (otherwise the in-memory answer is the C01 empty-domain finding)",
        "queries whose in-memory evaluation raises (attribute of None on an optional reference, incomparable None) are outside the comparison",
        "the(...) over an or_ whose operands range over different variable sets is not judged (a union produces one solution twice in memory; outside C02's fragment)",
        "comparisons use non-optional scalar fields; strings are compared by code point (SQLite BINARY collation agrees for UTF-8)",
        "SQLite only",
    ]
    budget = {
        "quick": dict(examples=110, shards=16, seconds=200),
        "thorough": dict(examples=500, shards=16, seconds=1500),
    }

    def strategy(self, tier, exclude):
        return c07_ir(tier, exclude)

    def static_features(self, ir):
        f = set()
        for q in ir["queries"]:
            f |= {x for x in query_features(q) if x in ("object_literal", "two_variable_query")}
            f |= self.none_join_features(ir, q)
        return f

    @staticmethod
    def none_join_features(ir, q):
        if q["var2"] is None:
            return set()
        for c in q["conds"]:
            for n in walk(c):
                if n["c"] == "join" and join_over_none_ends(ir["model"], ir["graph"], q["var"], n["lpath"], q["var2"], n["rpath"]):
                    return {"join_over_none_ends"}
        return set()

    def extra_evidence(self):
        return dict(translator_accepted=self._accepted, translator_rejected=self._rejected, in_memory_raised=self._memraise)

    _accepted = 0
    _rejected = 0
    _memraise = 0

    def run(self, ir) -> Outcome:
        from sqlalchemy.exc import MultipleResultsFound, NoResultFound
        from sqlalchemy.orm import Session

        from krrood.entity_query_language import entity as E
        from krrood.entity_query_language import failures as F
        from krrood.entity_query_language.quantify_entity import an, the
        from krrood.ormatic.dao import ToDAOState, to_dao
        from krrood.ormatic.eql_interface import EQLTranslationError, eql_to_sql
        from krrood.ormatic.utils import create_engine

        from ..ormlayer import Layer

        model, graph = ir["model"], ir["graph"]
        try:
            layer = Layer(model)
        except Exception:
            return Outcome(rejected=True)
        names = [c["name"] for c in model["classes"]]
        classes_ = set()
        nontrivial = False
        engine = create_engine("sqlite:///:memory:")
        try:
            objs = G.build_graph(model, graph, layer.mod, layer.clss)
            model_objs = [o for o in objs if type(o).__name__ not in G.EXTRA_NODES]
            try:
                layer.gen.Base.metadata.create_all(engine)
                state = ToDAOState()
                daos = [to_dao(o, state) for o in model_objs]
                with Session(engine) as session:
                    session.add_all(daos)
                    session.commit()
                    key_of = {id(o): state.memo[id(o)].database_id for o in model_objs}
            except Exception:
                return Outcome(rejected=True)  # persistence problems are C05's subject

            def chain(v, path):
                for p in path:
                    v = getattr(v, p)
                return v

            def build(c, x, y):
                k = c["c"]
                if k == "cmp":
                    return OPS[c["op"]](chain(x, c["path"]), c["lit"]["v"])
                if k == "in":
                    return (E.in_(chain(x, c["path"]), list(c["lits"])) if c["form"] == "in" else E.contains(list(c["lits"]), chain(x, c["path"])))
                if k == "substr":
                    return (E.in_(c["s"], chain(x, c["path"])) if c["form"] == "in" else E.contains(chain(x, c["path"]), c["s"]))
                if k == "and":
                    return E.and_(*[build(z, x, y) for z in c["xs"]])
                if k == "or":
                    return E.or_(*[build(z, x, y) for z in c["xs"]])
                if k == "not":
                    return E.not_(build(c["x"], x, y))
                if k == "join":
                    return chain(x, c["lpath"]) == chain(y, c["rpath"])
                if k == "cmp2":
                    return OPS[c["op"]](chain(x, c["lpath"]), chain(y, c["rpath"]))
                if k == "objlit":
                    return OPS[c["op"]](chain(x, c["path"]), objs[c["node"]])
                raise ValueError(k)

            for qi, q in enumerate(ir["queries"]):
                feats = query_features(q) | self.none_join_features(ir, q)
                classes_ |= feats
                cls = layer.clss[q["var"]]
                dom = [o for o in model_objs if isinstance(o, cls)]
                if model["classes"][q["var"]]["base"] is not None:
                    classes_.add("subclass_typed_variable")

                def make():
                    x = E.let(cls, list(dom), name="x")
                    y = None
                    if q["var2"] is not None:
                        cls2 = layer.clss[q["var2"]]
                        y = E.let(cls2, [o for o in model_objs if isinstance(o, cls2)], name="y")
                    conds = [build(c, x, y) for c in q["conds"]]
                    return (the if q["quant"] == "the" else an)(E.entity(x, *conds))

                # ---- preconditions of the comparison
                def paths_of(c):
                    for n in walk(c):
                        for key in ("path", "lpath"):
                            if key in n:
                                yield "x", n[key]
                        if "rpath" in n:
                            yield "y", n["rpath"]

                dom2 = [o for o in model_objs if q["var2"] is not None and isinstance(o, layer.clss[q["var2"]])]
                skip = None
                if q["var2"] is not None and not dom2:
                    skip = "second_variable_has_empty_domain"  # the in-memory engine's answer is the C01 empty-domain finding
                for who, path in (p for c in q["conds"] for p in paths_of(c)):
                    for o in (dom if who == "x" else dom2):
                        v = o
                        for name in path[:-1]:
                            v = getattr(v, name)
                            if v is None:
                                skip = "path_over_none_reference"  # plain Python would raise; only short circuits hide it
                                break
                if not skip and q["quant"] == "the" and q["var2"] is not None:
                    # or_ between operands over different variable sets is a union in memory and can produce one solution
                    # twice (outside C02's fragment): then the(...) fails in memory for a single solution. Such queries
                    # are not judged.
                    def mentions_y(z):
                        return any("rpath" in m for m in walk(z))

                    if any(n["c"] == "or" and len({mentions_y(z) for z in n["xs"]}) == 2 for c in q["conds"] for n in walk(c)):
                        skip = "the_over_a_union"
                if skip:
                    classes_.add("skipped_" + skip)
                    C07._memraise += 1
                    continue
                # ---- in memory
                try:
                    query = make()
                    if q["quant"] == "the":
                        try:
                            mem = ("one", key_of[id(query.evaluate())])
                        except F.NoSolutionFound:
                            mem = ("none", None)
                        except F.MultipleSolutionFound:
                            mem = ("many", None)
                    else:
                        mem = ("set", {key_of[id(r)] for r in query.evaluate()})
                except Exception:
                    C07._memraise += 1
                    classes_.add("in_memory_raised")
                    continue
                # ---- SQL
                def bad(kind, msg):
                    return fail(kind, f"query {qi} {q}: {msg}"[:1500], classes=sorted(classes_), nontrivial=nontrivial,
                                features=feats, bucket=kind + ":" + ",".join(sorted(feats)))

                try:
                    with Session(engine) as session:
                        try:
                            translator = eql_to_sql(make(), session)
                        except EQLTranslationError:
                            C07._rejected += 1
                            classes_.add("rejected_by_translator")
                            continue
                        C07._accepted += 1
                        if q["quant"] == "the":
                            try:
                                sql = ("one", translator.evaluate().database_id)
                            except NoResultFound:
                                sql = ("none", None)
                            except MultipleResultsFound:
                                sql = ("many", None)
                        else:
                            sql = ("set", {r.database_id for r in translator.evaluate()})
                except Exception as exc:
                    out = crash(exc, f"query {qi} {q}", classes=sorted(classes_), nontrivial=nontrivial, features=feats)
                    out.bucket = out.bucket + ":" + ",".join(sorted(feats))
                    return out
                if "relationship_join" in feats:
                    classes_.add("join_accepted_nonempty" if (mem[0] == "set" and mem[1]) or mem[0] == "one" else "join_accepted_empty")
                if mem[0] == "set":
                    n_table = len(dom)
                    nontrivial = nontrivial or (0 < len(mem[1]) < n_table)
                if sql != mem:
                    if mem[0] == "set":
                        extra, missing = sql[1] - mem[1], mem[1] - sql[1]
                        kind = "sql_returns_extra_rows" if extra and not missing else ("sql_misses_rows" if missing and not extra else "sql_rows_differ")
                        return bad(kind, f"in memory keys {sorted(mem[1])}, SQL keys {sorted(sql[1])}")
                    return bad("the_disagrees", f"in memory {mem}, SQL {sql}")
            return Outcome(nontrivial=nontrivial, classes=sorted(classes_))
        finally:
            engine.dispose()
            layer.close()


CHECK = C07()

"""C03 - evaluations are repeatable and do not interfere with each other.

IR: {"pool": multi-query IR (shared variables / shared condition objects / queries),
     "rule": optional rule-query IR of C08 (own world and variables); it is query number len(pool.queries),
     "ops": [["start", q] | ["step", h] | ["drain", h] | ["abandon", h]]}   (indexes taken modulo what exists)
Reference: the same query built from fresh krrood objects over the same data, evaluated alone, once.
"""
from __future__ import annotations

from collections import Counter

from hypothesis import strategies as st

from ..core import Check, Outcome, crash, fail
from ..eql import gen, lang, run


def sub_ir(pool, qi):
    q = pool["queries"][qi]
    return {"world": pool["world"], "vars": pool["vars"], "dvars": pool["dvars"], "conds": q["conds"], "sel": q["sel"], "quant": "an"}


def query_vars(pool, qi):
    return {r for r in lang.query_refs(sub_ir(pool, qi)) if r[0] == "var"}


def interpret(ops, n_queries):
    """resolve modular indexes; returns list of (op, handle_index, query_index)"""
    out, handles = [], []  # handles: [query, state] state in live/done/abandoned
    for op in ops:
        if op[0] == "start":
            q = op[1] % n_queries
            handles.append([q, "live"])
            out.append(("start", len(handles) - 1, q))
        else:
            live = [i for i, h in enumerate(handles) if h[1] == "live"]
            if not live:
                continue
            h = live[op[1] % len(live)]
            out.append((op[0], h, handles[h][0]))
            if op[0] == "drain":
                handles[h][1] = "done"
            elif op[0] == "abandon":
                handles[h][1] = "abandoned"
    return out


def n_queries(ir):
    return len(ir["pool"]["queries"]) + (1 if ir.get("rule") else 0)


def has_next_rule(tree):
    return any(ch["kind"] == "next_rule" or has_next_rule(ch["block"]) for ch in tree["children"])


def repair_ops(ir, ex):
    """drops the operations that would produce an excluded (known finding) history shape"""
    nq = n_queries(ir)
    if not ir.get("rule"):
        return ir["ops"]
    rq = nq - 1
    out, handles = [], []
    for op in ir["ops"]:
        if op[0] == "start":
            q = op[1] % nq
            if q == rq and "rule_query_live_twice" in ex and any(h == [rq, "live"] for h in handles):
                continue
            handles.append([q, "live"])
            out.append(op)
            continue
        live = [i for i, h in enumerate(handles) if h[1] == "live"]
        if not live:
            continue
        h = live[op[1] % len(live)]
        if op[0] == "abandon" and handles[h][0] == rq and "rule_query_abandoned_next_rule" in ex and has_next_rule(ir["rule"]["tree"]):
            op = ["drain", op[1]]
        out.append(op)
        if op[0] == "drain":
            handles[h][1] = "done"
        elif op[0] == "abandon":
            handles[h][1] = "abandoned"
    return out


class C03(Check):
    id = "C03"
    title = "Evaluations are repeatable and do not interfere with each other"
    rule = (
        "Hypothesis draws a pool (1-3 shared variables over list or one-shot generator domains, 0-2 shared condition "
        "objects used by several queries also under not_, 1-3 query objects in the conjunctive/else-if fragment, and in a "
        "third of the cases one rule query - C08's rule trees with refinement/alternative/next_rule blocks) "
        "and a history of 3-30 operations start(q)/step(h)/drain(h)/abandon(h) over the evaluate() iterators - "
        "the harness owns the whole schedule of next() calls. Reference: every query rebuilt from fresh krrood "
        "objects over the same data and evaluated alone once. A drained handle must have produced the same "
        "multiset of rows, a partially consumed or abandoned one a sub-multiset; exceptions from next() are "
        "failures. Non-trivial: two handles live at once, or a second start of an evaluated query, or an abandon "
        "followed by a start of the same query. Distinct = distinct IR."
    )
    assumptions = [
        "the reference is krrood itself on a fresh query, as the statement says ('the same results it produces when run alone')",
        "results are compared as multisets, not sequences (the statement promises the same results, not an order)",
        "single-threaded schedules of next() calls (the whole schedule space for generators)",
    ]
    budget = {
        "quick": dict(examples=300, shards=16, seconds=75),
        "thorough": dict(examples=12000, shards=16, seconds=1200),
    }

    def strategy(self, tier, exclude):
        cfg = gen.Cfg(fragment="c02", allow_quantifiers=False, allow_subquery=False, allow_flatten=False,
                      allow_derived_selection=False, allow_empty_domain=False, min_dom=1)
        cfg.max_vars = 3
        cfg.depth = 2
        if "live_handles_share_lazy_variable" in exclude:
            cfg.allow_generators = False
        op = st.one_of(
            st.tuples(st.just("start"), st.integers(0, 5)),
            st.tuples(st.just("step"), st.integers(0, 5)),
            st.tuples(st.just("step"), st.integers(0, 5)),
            st.tuples(st.just("drain"), st.integers(0, 5)),
            st.tuples(st.just("abandon"), st.integers(0, 5)),
        ).map(list)
        from .c08 import CHECK as C08
        rule = st.one_of(st.none(), st.none(), C08.strategy(tier, []))
        ex = set(exclude)

        def assemble(t):
            ir = dict(pool=t[0], ops=[["start", 0]] + t[2])
            if t[1] is not None:
                ir["rule"] = t[1]
                ir["ops"] = [["start", len(t[0]["queries"])]] + t[2]
            if ex & {"rule_query_live_twice", "rule_query_abandoned_next_rule"}:
                ir["ops"] = repair_ops(ir, ex)
            return ir

        return st.tuples(gen.multi_query_ir(cfg), rule, st.lists(op, min_size=3, max_size=30 if tier == "quick" else 60)).map(assemble)

    def static_features(self, ir):
        pool = ir["pool"]
        ops = interpret(ir["ops"], n_queries(ir))
        rq = len(pool["queries"]) if ir.get("rule") else None
        f = set()
        if rq is not None:
            f.add("rule_query")
        live = {}  # handle -> query
        started = set()
        abandoned = set()
        for op, h, q in ops:
            if op == "abandon" and q == rq:
                f.add("rule_query_abandoned")
                if has_next_rule(ir["rule"]["tree"]):
                    f.add("rule_query_abandoned_next_rule")
                abandoned.add(q)
            if op == "start" and q == rq:
                if rq in live.values():
                    f.add("rule_query_live_twice")
                if rq in started:
                    f.add("rule_query_restart")
                if rq in abandoned:
                    f.add("rule_query_restart_after_abandon")
                started.add(q)
                live[h] = q
                continue
            if op == "start":
                for h2, q2 in live.items():
                    if q2 == rq:
                        continue
                    shared = query_vars(pool, q) & query_vars(pool, q2)
                    if shared:
                        f.add("live_handles_share_variable")
                        # lazy = the shared variable's domain is not fully cached yet; a generator domain is always
                        # lazy at first, a list domain is lazy until one evaluation has drained it
                        f.add("live_handles_share_lazy_variable")
                    if q == q2:
                        f.add("same_query_live_twice")
                if q in started:
                    f.add("restart")
                started.add(q)
                live[h] = q
            elif op in ("drain", "abandon"):
                live.pop(h, None)
        return f

    def run(self, ir) -> Outcome:
        pool = ir["pool"]
        nq = len(pool["queries"])
        ops = interpret(ir["ops"], n_queries(ir))
        objs = lang.build_world(pool["world"])
        norm = lang.Oracle(sub_ir(pool, 0), objs).norm
        # reference: each query alone, fresh objects
        ref = {}
        for qi in range(nq):
            try:
                b = lang.Builder(sub_ir(pool, qi), objs, hooks=run.hooks())
                q = b.query()
                ref[qi] = Counter(b.row(r, norm) for r in q.evaluate())
            except Exception:
                return Outcome(rejected=True)  # a query that fails alone is C01's subject
        rule_decode = None
        if ir.get("rule"):
            from .c08 import CHECK as C08
            robjs = lang.build_world(ir["rule"]["world"])
            try:
                rquery, rdecode = C08.build(ir["rule"], robjs)
                ref[nq] = Counter(rdecode(r) for r in rquery.evaluate())
            except Exception:
                return Outcome(rejected=True)  # a rule query that fails alone is C08's subject
        # the shared pool
        shared = lang.Builder(sub_ir(pool, 0), objs, hooks=run.hooks())
        queries = []
        try:
            for qi in range(nq):
                shared.ir = sub_ir(pool, qi)
                q = shared.query()
                queries.append((q, list(shared.sel_nodes), shared.ir))
            if ir.get("rule"):
                rquery, rule_decode = C08.build(ir["rule"], robjs)
                queries.append((rquery, None, None))
        except Exception as exc:
            return crash(exc, "building pool")

        def row(qi, r):
            if qi == nq:
                return rule_decode(r)
            q, sel_nodes, sir = queries[qi]
            if sir["sel"]["kind"] == "entity":
                return (norm(r),)
            return tuple(norm(r[n]) for n in sel_nodes)

        feats = self.static_features(ir)
        classes = sorted(feats) + [f"queries{n_queries(ir)}"]
        live_max, cur_live = 0, 0
        handles = {}
        nontrivial = bool(feats & {"restart", "rule_query_restart"})
        for step_no, (op, h, qi) in enumerate(ops):
            try:
                if op == "start":
                    handles[h] = dict(q=qi, it=queries[qi][0].evaluate(), got=Counter(), state="live")
                    cur_live += 1
                    live_max = max(live_max, cur_live)
                elif op == "step":
                    try:
                        handles[h]["got"][row(qi, next(handles[h]["it"]))] += 1
                    except StopIteration:
                        handles[h]["state"] = "done"
                        cur_live -= 1
                elif op == "drain":
                    for r in handles[h]["it"]:
                        handles[h]["got"][row(qi, r)] += 1
                    handles[h]["state"] = "done"
                    cur_live -= 1
                elif op == "abandon":
                    handles[h]["it"] = None
                    handles[h]["state"] = "abandoned"
                    cur_live -= 1
            except Exception as exc:
                return crash(exc, f"op {step_no} {op} h{h} q{qi}", classes=classes, nontrivial=True, features=feats)
        nontrivial = nontrivial or live_max >= 2
        for h, hd in handles.items():
            want = ref[hd["q"]]
            got = hd["got"]
            if hd["state"] == "done":
                if got != want:
                    kind = "missing_results" if not (got - want) else ("extra_results" if not (want - got) else "different_results")
                    return fail(kind, f"handle {h} (query {hd['q']}) drained: got {dict(got)} alone {dict(want)}"[:700],
                                classes=classes, nontrivial=nontrivial, features=feats, bucket=",".join(sorted(feats)))
            elif got - want:
                return fail("extra_results", f"handle {h} (query {hd['q']}) partial: got {dict(got)} alone {dict(want)}"[:700],
                            classes=classes, nontrivial=nontrivial, features=feats, bucket=",".join(sorted(feats)))
        return Outcome(nontrivial=nontrivial, classes=classes)


CHECK = C03()

"""C20 - krrood never extends the lifetime of user objects.

IR: {"ops":[op...], "loop": k}   op: ["create", cls] | ["boss", agent_i] | ["relate", s, f, t] | ["query", T, explicit, consume]
                                      | ["drop_query", i] | ["drop_results", i] | ["drop", i]
After the history everything the harness holds is dropped, gc.collect() runs, and one unrelated query is evaluated
(which triggers the sweep). Oracle: a weak-reference census and the sizes of krrood's bookkeeping containers.
"""
from __future__ import annotations

import gc
import weakref

from hypothesis import strategies as st

from ..core import Check, Outcome, crash, fail
from ..onto import model as M

QUERY_TYPES = ["Org", "Agent"]


def sizes():
    """sizes of the krrood-held structures (missing attributes are skipped and reported)"""
    from krrood.entity_query_language.rxnode import RWXNode
    from krrood.entity_query_language.symbol_graph import SymbolGraph
    from krrood.entity_query_language.symbolic import SymbolicExpression

    g = SymbolGraph()
    out = {}
    try:
        out["graph_nodes"] = len(g._instance_graph.nodes())
        out["graph_edges"] = len(g._instance_graph.edges())
    except AttributeError:
        pass
    for name in ("_instance_index",):
        if hasattr(g, name):
            out[name] = len(getattr(g, name))
    if hasattr(g, "_class_to_wrapped_instances"):
        out["_class_to_wrapped_instances"] = sum(len(v) for v in g._class_to_wrapped_instances.values())
    if hasattr(g, "_relation_index"):
        out["_relation_index"] = sum(len(v) for v in g._relation_index.values())
    expr = {}
    if hasattr(SymbolicExpression, "_id_expression_map_"):
        expr["expression_id_table"] = len(SymbolicExpression._id_expression_map_)
    if hasattr(RWXNode, "_graph"):
        expr["expression_dag_nodes"] = RWXNode._graph.num_nodes()
    return out, expr


def sweep(by_query=False):
    """remove dead instances from the symbol graph: what every evaluate() does first. Between loop iterations the
    harness calls the public method itself, so that its own sweeping does not create query expressions."""
    from krrood.entity_query_language.entity import entity, let
    from krrood.entity_query_language.quantify_entity import an
    from krrood.entity_query_language.symbol_graph import SymbolGraph

    if by_query:
        x = let(int, [1])
        list(an(entity(x)).evaluate())
    else:
        SymbolGraph().remove_dead_instances()


class C20(Check):
    id = "C20"
    title = "krrood never extends the lifetime of user objects"
    rule = (
        "Hypothesis draws a history over the harness ontology: create instances (incl. roles), relate them through "
        "managed fields, evaluate queries over them with a domain-less or an explicit-domain variable (fully or "
        "partially consumed), drop query objects, result lists and instances in any order; optionally the body is "
        "repeated k and 2k times. Then every reference of the harness is dropped, gc.collect() runs and one "
        "unrelated query is evaluated (sweep). Oracle: every instance of the weak-reference census is dead, a "
        "domain-less variable yields nothing, and the symbol graph's node/edge count, instance index, class index "
        "and relation index are back at their baseline; in the loop variant these sizes, the expression id table "
        "and the expression DAG after 2k iterations equal those after k. Non-trivial: >= 1 instance was related "
        "and >= 1 was touched by a query (while the expression-registry finding stands: >= 2 related instances "
        "and >= 1 role or transitive chain). Distinct = distinct IR."
    )
    assumptions = [
        "CPython reference counting plus gc.collect()",
        "sizes of private containers are read-only observations; a container that does not exist is skipped and listed in the evidence",
        "the final sweep is triggered by evaluating a query over an unrelated explicit domain",
    ]
    budget = {
        "quick": dict(examples=150, shards=16, seconds=75),
        "thorough": dict(examples=6000, shards=16, seconds=1200),
    }

    def setup_worker(self):
        from ..models import ontology  # noqa: F401

        M.reset_graph(full=True)
        gc.collect()
        gc.freeze()

    def strategy(self, tier, exclude):
        with_queries = "query_over_instances" not in exclude
        ops = [
            st.tuples(st.just("create"), st.sampled_from(["Org", "Org", "Agent"])),
            st.tuples(st.just("create"), st.sampled_from(["Org", "Org", "Agent"])),
            st.tuples(st.just("boss"), st.integers(0, 7)),
            st.tuples(st.just("relate"), st.integers(0, 7), st.integers(0, 7), st.integers(0, 7)),
            st.tuples(st.just("relate"), st.integers(0, 7), st.integers(0, 7), st.integers(0, 7)),
            st.tuples(st.just("drop"), st.integers(0, 7)),
            st.tuples(st.just("unlink"), st.integers(0, 7)),
            st.tuples(st.just("sweep")),
        ]
        if with_queries:
            ops += [
                st.tuples(st.just("query"), st.sampled_from(QUERY_TYPES), st.booleans(), st.integers(0, 3)),
                st.tuples(st.just("query"), st.sampled_from(QUERY_TYPES), st.booleans(), st.integers(0, 3)),
                st.tuples(st.just("drop_query"), st.integers(0, 3)),
                st.tuples(st.just("drop_results"), st.integers(0, 3)),
            ]
        body = st.lists(st.one_of(*ops).map(list), min_size=3, max_size=20 if tier == "quick" else 40)
        return st.tuples(body, st.sampled_from([0, 0, 2, 3])).map(lambda t: {"ops": [["create", "Org"], ["create", "Agent"]] + t[0], "loop": t[1]})

    def static_features(self, ir):
        return {"query_over_instances"} if any(op[0] == "query" for op in ir["ops"]) else set()

    # ------------------------------------------------------------------------------------------
    def body(self, ops, census, stats):
        from krrood.entity_query_language.entity import entity, let
        from krrood.entity_query_language.quantify_entity import an

        from ..models import ontology as O

        live, queries, results = [], [], []
        for op in ops:
            k = op[0]
            if k == "create":
                obj = O.CLASSES[op[1]](f"x{len(census)}")
                live.append(obj)
                census.append(weakref.ref(obj))
            elif k == "boss":
                agents = [x for x in live if isinstance(x, O.Agent)]
                if agents:
                    obj = O.Boss(agents[op[1] % len(agents)])
                    live.append(obj)
                    census.append(weakref.ref(obj))
                    stats["roles"] += 1
            elif k == "relate" and live:
                s = live[op[1] % len(live)]
                cls = type(s).__name__
                cands = [(f, rng) for (c, f), (d, kind, rng) in M.FIELDS.items() if c == cls]
                f, rng = cands[op[2] % len(cands)]
                targets = [x for x in live if type(x).__name__ in rng]
                if not targets:
                    continue
                t = targets[op[3] % len(targets)]
                kind = M.FIELDS[(cls, f)][1]
                if kind == "single":
                    if getattr(s, f) is not None:
                        # a single-valued field is written a second time only on an agent without roles (the relation
                        # to the old target stays in the graph until one of its ends dies)
                        if cls != "Agent" or any(isinstance(b, O.Boss) and b.agent is s for b in live):
                            continue
                        stats["reassigned"] = stats.get("reassigned", 0) + 1
                    if cls == "Boss" and s.agent.works_for not in (None, t):
                        continue
                    if cls == "Agent" and any(isinstance(b, O.Boss) and b.agent is s and b.head_of not in (None, t) for b in live):
                        continue
                    setattr(s, f, t)
                elif kind == "list":
                    getattr(s, f).append(t)
                else:
                    getattr(s, f).add(t)
                stats["related"] += 1
            elif k == "unlink" and live:
                # the source of a relation stops holding its targets and outlives them: o.linked_to = []
                orgs = [x for x in live if type(x).__name__ == "Org"]
                if orgs:
                    orgs[op[1] % len(orgs)].linked_to = []
                    stats["unlinked"] = stats.get("unlinked", 0) + 1
            elif k == "sweep":
                from krrood.entity_query_language.symbol_graph import SymbolGraph

                gc.collect()
                SymbolGraph().remove_dead_instances()
            elif k == "drop" and live:
                live.pop(op[1] % len(live))
            elif k == "query":
                T = O.CLASSES[op[1]]
                x = let(T, [o for o in live if isinstance(o, T)]) if op[2] else let(T, None)
                q = an(entity(x, x.name != "nobody"))
                it = q.evaluate()
                got = []
                for _ in range(op[3] if op[3] < 3 else 10 ** 6):
                    try:
                        got.append(next(it))
                    except StopIteration:
                        break
                stats["touched_by_query"] += len(got)
                queries.append((q, it))
                results.append(got)
                del x, q, it, got
            elif k == "drop_query" and queries:
                queries.pop(op[1] % len(queries))
            elif k == "drop_results" and results:
                results.pop(op[1] % len(results))
        live.clear()
        queries.clear()
        results.clear()

    def run(self, ir) -> Outcome:
        from krrood.entity_query_language.entity import entity, let
        from krrood.entity_query_language.quantify_entity import an

        from ..models import ontology as O

        feats = self.static_features(ir)
        classes = sorted(feats) + (["loop"] if ir["loop"] else [])
        try:
            M.reset_graph()
            gc.collect()
            sweep(by_query=True)
            base, base_expr = sizes()
            census, stats = [], dict(related=0, touched_by_query=0, roles=0)
            rounds = ir["loop"] or 1
            marks = {}
            for r in range(2 * rounds if ir["loop"] else 1):
                self.body(ir["ops"], census, stats)
                gc.collect()
                sweep()
                gc.collect()
                if ir["loop"] and r + 1 in (rounds, 2 * rounds):
                    marks[r + 1] = sizes()
        except Exception as exc:
            return crash(exc, "history", classes=classes)
        nontrivial = stats["related"] >= 1 and (stats["touched_by_query"] >= 1 or (stats["related"] >= 2 and "query_over_instances" not in feats))
        classes += [f"related{min(stats['related'], 3)}", f"touched{min(stats['touched_by_query'], 3)}"] + (["role"] if stats["roles"] else [])

        def bad(kind, msg):
            return fail(kind, msg, classes=classes, nontrivial=nontrivial, features=feats, bucket=kind)

        alive = [r() for r in census if r() is not None]
        if alive:
            names = sorted(repr(x) for x in alive)[:6]
            del alive
            return bad("instance_kept_alive", f"{len(names)}+ of {len(census)} instances survive although every user reference is gone: {names}")
        for T in (O.Org, O.Agent, O.Boss):
            left = list(an(entity(let(T, None))).evaluate())
            if left:
                return bad("dead_instance_still_in_domain", f"let({T.__name__}, None) still yields {left[:3]}")
        now, now_expr = sizes()
        for k, v in base.items():
            if now.get(k) != v:
                return bad("bookkeeping_left_behind", f"{k}: {v} before the history, {now.get(k)} after everything was dropped and swept")
        if ir["loop"]:
            (a, ae), (b, be) = marks[rounds], marks[2 * rounds]
            for k in a:
                if a[k] != b[k]:
                    return bad("structure_grows_in_loop", f"{k}: {a[k]} after {rounds} iterations, {b[k]} after {2 * rounds}")
            for k in ae:
                if ae[k] != be[k]:
                    return bad("expression_registry_grows_in_loop", f"{k}: {ae[k]} after {rounds} iterations, {be[k]} after {2 * rounds}")
        return Outcome(nontrivial=nontrivial, classes=classes)

    def extra_evidence(self):
        base, expr = ({}, {})
        try:
            base, expr = sizes()
        except Exception:
            pass
        return {"observed_containers": sorted(list(base) + list(expr))}


CHECK = C20()

"""C12 - predicates and symbolic functions agree between concrete and symbolic calls.

IR: {"kind":"function"|"predicate", "params":[{"name","default":None|int}], "call":[{"how":"pos"|"kw"|"omit","arg":A}],
     "doms":[[a-values of distinct items]...], "weights":[ints], "plain":[bool per variable], "pre": bool}
  plain variable = let(int, values) ranging over the values themselves (0 is falsy); pre = an always-true condition on
  the first used variable is written before the call, so the variable is bound when the call is evaluated
  A = {"v": var index} | {"va": var index} (the variable's .a attribute) | {"c": int}
    | {"g": var index}  (a nested symbolic call half(value) whose result, 0 for the values 0 and 1, is the argument)
"""
from __future__ import annotations

import itertools
from collections import Counter

from hypothesis import strategies as st

from ..core import Check, Outcome, crash, fail

LOG = []


def _value_of(x):
    return x.a if hasattr(x, "a") else x


def _truth(weights, values):
    return sum(w * _value_of(v) for w, v in zip(weights, values)) % 3 != 0


def _make(ir):
    """compile the function / Predicate class from generated source so that inspect.signature is real"""
    names = [p["name"] for p in ir["params"]]
    sig = ", ".join(n if p["default"] is None else f"{n}={p['default']}" for n, p in zip(names, ir["params"]))
    kwonly = ir.get("kwonly")
    all_names = names + (["s"] if kwonly else [])
    weights = list(ir["weights"]) + ([1] if kwonly else [])
    env = {"LOG": LOG, "_truth": _truth, "W": weights}
    if ir["kind"] == "function":
        from krrood.entity_query_language.predicate import symbolic_function

        if kwonly:
            sig += f", *, s={kwonly['default']}"
        src = (f"def f({sig}):\n    LOG.append({{{', '.join(repr(n) + ': ' + n for n in all_names)}}})\n"
               f"    return _truth(W, [{', '.join(all_names)}])\n")
        exec(src, env)
        return symbolic_function(env["f"])
    from dataclasses import dataclass

    from krrood.entity_query_language.predicate import Predicate

    env.update(dataclass=dataclass, Predicate=Predicate)
    fields = "\n".join(f"    {n}: object" + ("" if p["default"] is None else f" = {p['default']}") for n, p in zip(names, ir["params"]))
    base = "Predicate"
    src = ""
    if kwonly:
        # a keyword-only option inherited from a base predicate: the order of dataclasses.fields() (s first) differs
        # from the order of the __init__ parameters (s last)
        src = f"@dataclass(eq=False, kw_only=True)\nclass PBase(Predicate):\n    s: object = {kwonly['default']}\n\n"
        base = "PBase"
    src += (f"@dataclass(eq=False)\nclass P({base}):\n{fields}\n    def __call__(self):\n"
            f"        LOG.append({{{', '.join(repr(n) + ': self.' + n for n in all_names)}}})\n"
            f"        return _truth(W, [{', '.join('self.' + n for n in all_names)}])\n")
    exec(src, env)
    return env["P"]


class C12(Check):
    id = "C12"
    title = "Predicates and symbolic functions agree between concrete and symbolic calls"
    rule = (
        "Hypothesis draws a signature (1-4 parameters, trailing defaults, optionally a keyword-only parameter - for the "
        "Predicate inherited from a kw_only base dataclass, so that field order and __init__ order differ), compiled from generated source as a "
        "@symbolic_function and as a Predicate dataclass, and a call shape (each argument positional, keyword or "
        "omitted-with-default; each a query variable, an attribute of one, a nested symbolic call, or a concrete value (ints, and bools/floats equal to them); the same variable may "
        "occur in several positions), with 1-2 variables over domains of 0-4 objects or of plain ints including 0, "
        "optionally after an always-true condition that binds the first variable, optionally in conjunction with the "
        "very expression object that was passed as one of its arguments. Oracle: an all-concrete call "
        "runs the body once and returns the plain result; a call with a variable returns a SymbolicExpression and "
        "the body's log stays empty; evaluating it as the only condition returns exactly the bindings for which "
        "the concrete call is truthy and logs exactly one invocation per candidate binding with every parameter "
        "bound to the argument written in its position. Non-trivial: a positional variable or a used default, and "
        "both truth values occur. Distinct = distinct IR."
    )
    assumptions = [
        "the call is the only condition of the query besides an optional always-true one, so 'candidate binding' = an element of the product of the variable arguments' domains",
        "the body is a deterministic function of its argument values",
    ]
    budget = {
        "quick": dict(examples=300, shards=16, seconds=60),
        "thorough": dict(examples=15000, shards=16, seconds=900),
    }

    def strategy(self, tier, exclude):
        @st.composite
        def ir(draw):
            n = draw(st.integers(1, 4))
            n_def = draw(st.integers(0, n - 1)) if n > 1 else draw(st.integers(0, 1)) * 0
            params = [dict(name=f"p{i}", default=(draw(st.integers(0, 3)) if i >= n - n_def else None)) for i in range(n)]
            n_vars = draw(st.integers(1, 2))
            doms = [draw(st.lists(st.integers(0, 4), max_size=4, unique=True)) for _ in range(n_vars)]
            arg = st.one_of(
                st.integers(0, n_vars - 1).map(lambda i: {"v": i}),
                st.integers(0, n_vars - 1).map(lambda i: {"va": i}),
                st.integers(0, 4).map(lambda c: {"c": c}),
                st.sampled_from([False, True, 0.0, 1.0, 2.0]).map(lambda c: {"c": c}),  # equal to ints, but other objects
                st.integers(0, n_vars - 1).map(lambda i: {"g": i}),
            )
            n_pos = draw(st.integers(0, n))
            call = []
            for i, p in enumerate(params):
                if i < n_pos:
                    how = "pos"
                elif p["default"] is not None and draw(st.booleans()):
                    how = "omit"
                else:
                    how = "kw"
                call.append(dict(how=how, arg=draw(arg)))
            all_const = draw(st.sampled_from([False, False, False, True]))
            if all_const:
                for c in call:
                    c["arg"] = {"c": draw(st.integers(0, 4))}
            kwonly = None
            if draw(st.sampled_from([0, 0, 1])):
                kwonly = dict(default=draw(st.integers(0, 3)), how=draw(st.sampled_from(["omit", "kw"])),
                              arg={"c": draw(st.integers(0, 4))} if all_const else draw(arg))
            kw_order = draw(st.permutations([i for i, c in enumerate(call) if c["how"] == "kw"]))
            return dict(kind=draw(st.sampled_from(["function", "predicate"])), params=params, call=call, doms=doms,
                        weights=[draw(st.integers(1, 2)) for _ in range(n)], kw_order=list(kw_order), kwonly=kwonly,
                        conj=draw(st.sampled_from([None, None, 0, 1])),
                        plain=[draw(st.sampled_from([False, False, True])) for _ in range(n_vars)], pre=draw(st.sampled_from([False, False, True])))

        return ir()

    def run(self, ir) -> Outcome:
        from krrood.entity_query_language.entity import let, set_of
        from krrood.entity_query_language.quantify_entity import an
        from krrood.entity_query_language.symbolic import SymbolicExpression

        from ..models.eql_world import Item

        names = [p["name"] for p in ir["params"]]
        kwonly = ir.get("kwonly")
        all_call = list(ir["call"]) + ([dict(how=kwonly["how"], arg=kwonly["arg"])] if kwonly else [])
        all_params = list(ir["params"]) + ([dict(name="s", default=kwonly["default"])] if kwonly else [])
        all_names = names + (["s"] if kwonly else [])
        all_weights = list(ir["weights"]) + ([1] if kwonly else [])
        used_vars = sorted({list(c["arg"].values())[0] for c in all_call if c["how"] != "omit" and "c" not in c["arg"]})
        symbolic = bool(used_vars)
        pos_var = any(c["how"] == "pos" and "c" not in c["arg"] for c in ir["call"])
        default_used = any(c["how"] == "omit" for c in ir["call"])
        same_var_twice = len([1 for c in all_call if c["how"] != "omit" and "c" not in c["arg"]]) > len(used_vars)
        classes = [ir["kind"], "symbolic" if symbolic else "concrete", f"arity{len(names)}"] + (["keyword_only_parameter"] if kwonly else [])
        classes += ["positional_variable"] * pos_var + ["default_used"] * default_used + ["same_var_twice"] * same_var_twice
        classes += ["attr_argument"] * any("va" in c["arg"] for c in ir["call"] if c["how"] != "omit")

        LOG.clear()
        try:
            target = _make(ir)
        except Exception as exc:
            return crash(exc, "defining predicate/function", classes=classes)
        plain = ir.get("plain") or [False] * len(ir["doms"])
        items = [list(dom) if plain[vi] else [Item(a=a) for a in dom] for vi, dom in enumerate(ir["doms"])]
        for vi, its in enumerate(items):
            for it in its:
                if not plain[vi]:
                    it._label = (vi, it.a)
        variables = [let(int if plain[vi] else Item, its, name=f"x{vi}") for vi, its in enumerate(items)]
        classes += ["plain_value_variable"] * any(plain[i] for i in used_vars)
        classes += ["falsy_value_of_bound_argument"] * any(plain[i] and 0 in ir["doms"][i] and (ir.get("pre") or same_var_twice) for i in used_vars)

        from krrood.entity_query_language.predicate import symbolic_function

        @symbolic_function
        def half(value):
            return value // 2

        classes += ["nested_symbolic_call_argument"] * any("g" in c["arg"] for c in ir["call"] if c["how"] != "omit")

        def arg_node(a):
            if "g" in a:
                return half(variables[a["g"]] if plain[a["g"]] else variables[a["g"]].a)
            if "v" in a:
                return variables[a["v"]]
            if "va" in a:
                return variables[a["va"]] if plain[a["va"]] else variables[a["va"]].a
            return a["c"]

        def arg_value(a, binding):
            if "g" in a:
                return _value_of(binding[a["g"]]) // 2
            if "v" in a:
                return binding[a["v"]]
            if "va" in a:
                return binding[a["va"]] if plain[a["va"]] else binding[a["va"]].a
            return a["c"]

        nodes = {i: arg_node(c["arg"]) for i, c in enumerate(ir["call"]) if c["how"] != "omit"}
        pos = [nodes[i] for i, c in enumerate(ir["call"]) if c["how"] == "pos"]
        kw = {names[i]: nodes[i] for i in ir["kw_order"]}
        if kwonly and kwonly["how"] == "kw":
            kw["s"] = arg_node(kwonly["arg"])
        LOG.clear()
        try:
            res = target(*pos, **kw)
        except Exception as exc:
            return crash(exc, f"calling with pos={len(pos)} kw={list(kw)}", classes=classes,
                         features={"symbolic_function_positional"} if ir["kind"] == "function" and pos else set())

        def params_for(binding):
            d = {}
            for n, p, c in zip(all_names, all_params, all_call):
                d[n] = p["default"] if c["how"] == "omit" else arg_value(c["arg"], binding)
            return d

        def freeze(d):
            # the type is part of the value: False, 0 and 0.0 are equal but not the same argument
            return tuple((k, getattr(v, "_label", (type(v).__name__, v))) for k, v in sorted(d.items()))

        def label(vi, o):
            return (vi, o) if plain[vi] else o._label

        if not symbolic:
            want = params_for({})
            truth = _truth(all_weights, [want[n] for n in all_names])
            if ir["kind"] == "predicate":
                if isinstance(res, SymbolicExpression):
                    return fail("concrete_call_returned_expression", f"{ir}", classes=classes)
                if LOG:
                    return fail("predicate_ran_at_construction", f"log={LOG}", classes=classes)
                try:
                    res = res()
                except Exception as exc:
                    return crash(exc, "calling concrete predicate instance", classes=classes)
            if len(LOG) != 1 or freeze(LOG[0]) != freeze(want):
                return fail("concrete_call_wrong_binding", f"log={LOG} expected one call with {want}", classes=classes)
            if res is not truth and res != truth:
                return fail("concrete_call_wrong_result", f"returned {res!r}, body gives {truth!r}", classes=classes)
            return Outcome(nontrivial=False, classes=classes)

        if not isinstance(res, SymbolicExpression):
            return fail("symbolic_call_not_an_expression", f"call with a variable returned {res!r}", classes=classes)
        if LOG:
            return fail("ran_at_construction", f"body ran while building the condition: {LOG[:3]}", classes=classes)
        sel = [variables[i] for i in used_vars]
        conds = [res]
        # the very expression object that was passed as an argument is also a condition of its own, written after
        # the call: and_(call(.., e, ..), e)
        conj = None
        cands = [i for i, c in nodes.items() if ("va" in ir["call"][i]["arg"] and not plain[ir["call"][i]["arg"]["va"]]) or "g" in ir["call"][i]["arg"]]
        if ir.get("conj") is not None and cands:
            from krrood.entity_query_language.entity import and_

            conj = cands[ir["conj"] % len(cands)]
            conds = [and_(res, nodes[conj])]
            classes.append("argument_object_is_also_a_condition")
        if ir.get("pre"):
            first = variables[used_vars[0]]
            conds.insert(0, (first if plain[used_vars[0]] else first.a) >= 0)  # holds for every candidate
            classes.append("condition_before_the_call")
        try:
            rows = [tuple(r[v] for v in sel) for r in an(set_of(sel, *conds)).evaluate()]
        except Exception as exc:
            return crash(exc, "evaluating", classes=classes)
        candidates = [dict(zip(used_vars, combo)) for combo in itertools.product(*[items[i] for i in used_vars])]
        want_calls = Counter(freeze(params_for(b)) for b in candidates)
        got_calls = Counter(freeze(d) for d in LOG)
        want_rows = Counter(tuple(label(i, b[i]) for i in used_vars) for b in candidates
                            if _truth(all_weights, [params_for(b)[n] for n in all_names])
                            and (conj is None or bool(arg_value(ir["call"][conj]["arg"], b))))
        got_rows = Counter(tuple(label(i, o) for i, o in zip(used_vars, row)) for row in rows)
        truths = {bool(_truth(all_weights, [params_for(b)[n] for n in all_names])) for b in candidates}
        nontrivial = (pos_var or default_used) and truths == {True, False}
        if got_calls != want_calls:
            extra = got_calls - want_calls
            missing = want_calls - got_calls
            kind = "wrong_parameter_binding" if set(got_calls) != set(want_calls) else "wrong_invocation_count"
            return fail(kind, f"calls extra={dict(extra)} missing={dict(missing)}"[:700], classes=classes, nontrivial=nontrivial)
        if set(got_rows) != set(want_rows):
            return fail("wrong_truth_contribution", f"rows got={dict(got_rows)} want={dict(want_rows)}"[:700], classes=classes,
                        nontrivial=nontrivial)
        return Outcome(nontrivial=nontrivial, classes=classes)


CHECK = C12()

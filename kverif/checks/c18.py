"""C18 - JSON serialisation round-trips polymorphic objects through real JSON text.

IR: tagged tree  {"t": kind, ...}; see `build`.
Oracle: structural equality with exact type identity at every position + tag inspection of the
serialised form.
"""
from __future__ import annotations

import datetime
import json
import math
import uuid
from decimal import Decimal
from fractions import Fraction

from hypothesis import strategies as st

from ..core import Check, Outcome, crash, fail


def build(ir):
    from ..models import json_tree as jt

    t = ir["t"]
    if t == "none":
        return None
    if t == "bool":
        return bool(ir["v"])
    if t == "int":
        return int(ir["v"])
    if t == "float":
        return float.fromhex(ir["v"]) if ir["v"] not in ("nan", "inf", "-inf") else float(ir["v"])
    if t == "str":
        return "".join(chr(c) for c in ir["v"])
    if t == "uuid":
        return uuid.UUID(int=int(ir["v"]))
    if t == "dec":
        return Decimal(ir["v"])
    if t == "frac":
        return Fraction(int(ir["v"][0]), int(ir["v"][1]))
    if t == "complex":
        return complex(float.fromhex(ir["v"][0]), float.fromhex(ir["v"][1]))
    if t == "dt":
        return datetime.datetime.fromisoformat(ir["v"])
    if t == "date":
        return datetime.date.fromisoformat(ir["v"])
    if t == "celsius":
        return jt.Celsius(int(ir["v"]))
    if t == "pcelsius":
        return jt.PreciseCelsius(int(ir["v"][0]), int(ir["v"][1]))
    if t == "list":
        return [build(x) for x in ir["v"]]
    if t == "obj":
        cls = _module(ir).CLASSES[ir["c"]]
        kw = {k: build(v) for k, v in ir["f"].items()}
        return cls(**kw)
    raise ValueError(t)


def _module(ir):
    from ..models import json_tree as jt
    from ..models import json_tree_b as jtb

    return jtb if ir.get("m") == "b" else jt


def _fields_of(obj):
    """field names of a harness object, None for anything else"""
    from ..models import json_tree as jt
    from ..models import json_tree_b as jtb

    for mod in (jt, jtb):
        if type(obj).__name__ in mod.CLASSES and type(obj) is mod.CLASSES[type(obj).__name__]:
            return mod.FIELDS[type(obj).__name__]
    return None


def same(a, b, path="$"):
    """None if structurally equal with identical types, else a description of the first difference."""
    from ..models import json_tree as jt

    if type(a) is not type(b):
        return f"{path}: type {type(a).__name__} became {type(b).__name__}"
    if isinstance(a, float):
        if (math.isnan(a) and math.isnan(b)) or (a == b and math.copysign(1, a) == math.copysign(1, b)):
            return None
        return f"{path}: float {a!r} became {b!r}"
    if isinstance(a, complex):
        return same(a.real, b.real, path + ".real") or same(a.imag, b.imag, path + ".imag")
    if isinstance(a, list):
        if len(a) != len(b):
            return f"{path}: list length {len(a)} became {len(b)}"
        for i, (x, y) in enumerate(zip(a, b)):
            d = same(x, y, f"{path}[{i}]")
            if d:
                return d
        return None
    if _fields_of(a) is not None:
        for f in _fields_of(a):
            d = same(getattr(a, f), getattr(b, f), f"{path}.{f}")
            if d:
                return d
        return None
    if a != b:
        return f"{path}: {a!r} became {b!r}"
    return None


def check_tags(value, js, path="$"):
    """The serialised form of every object carries its fully qualified class name."""
    from ..models import json_tree as jt

    if isinstance(value, list):
        if not isinstance(js, list) or len(js) != len(value):
            return f"{path}: list serialised as {type(js).__name__}"
        for i, (v, j) in enumerate(zip(value, js)):
            d = check_tags(v, j, f"{path}[{i}]")
            if d:
                return d
        return None
    if value is None or isinstance(value, (bool, int, float, str)):
        return None
    want = f"{type(value).__module__}.{type(value).__qualname__}"
    if not isinstance(js, dict) or js.get("__json_type__") != want:
        got = js.get("__json_type__") if isinstance(js, dict) else js
        return f"{path}: tag {got!r}, expected {want!r}"
    if _fields_of(value) is not None:
        for f in _fields_of(value):
            if f not in js:
                return f"{path}: field {f} missing in serialised form"
            d = check_tags(getattr(value, f), js[f], f"{path}.{f}")
            if d:
                return d
    return None


def _no_surrogate_pairs(cs):
    """A high surrogate directly followed by a low one is one astral character in JSON text (the json
    module joins them); such a str is not representable in JSON, so it is not generated."""
    out = []
    for c in cs:
        if out and 0xD800 <= out[-1] <= 0xDBFF and 0xDC00 <= c <= 0xDFFF:
            c = 0x41
        out.append(c)
    return out


def _stats(ir, depth=0, in_list=False, acc=None):
    acc = acc if acc is not None else dict(max_depth=0, deep_obj_in_list=False, kinds=set())
    acc["kinds"].add(ir["t"])
    acc["max_depth"] = max(acc["max_depth"], depth)
    if ir["t"] == "list":
        if not ir["v"]:
            acc["kinds"].add("empty_list")
        for x in ir["v"]:
            _stats(x, depth + 1, True, acc)
    elif ir["t"] == "obj":
        from ..models import json_tree as jt

        if in_list and _module(ir).DEPTH[ir["c"]] >= 2:
            acc["deep_obj_in_list"] = True
        acc["kinds"].add("cls:" + ir["c"])
        if ir.get("m") == "b":
            acc["kinds"].add("same_class_name_in_second_module")
        for v in ir["f"].values():
            _stats(v, depth + 1, False, acc)
    return acc


class C18(Check):
    id = "C18"
    title = "JSON serialisation round-trips polymorphic objects through real JSON text"
    rule = (
        "Hypothesis-generated recursive values (None, bool, int incl. >2^64, float incl. +-0.0/inf/nan/"
        "subnormals, unicode strings incl. NUL and lone surrogates, UUID, registered Decimal/Fraction/"
        "complex/datetime, two registered pairs related by inheritance - date (registered first) / datetime and "
        "Celsius / PreciseCelsius (subtype registered first) -, SubclassJSONSerializer instances of subclass depth 1..4 (two of the class names also exist, with other fields, in a second module), lists to depth 5 incl. "
        "empty lists). Oracle: from_json(json.loads(json.dumps(to_json(v)))) structurally equal with "
        "identical types at every position, and every object's serialised dict carries module.qualname. "
        "Non-trivial: the value contains an instance of subclass depth >= 2 inside a list. Distinct = distinct IR."
    )
    assumptions = [
        "harness classes implement to_json/_from_json exactly as doc/ormatic/json.rst prescribes",
        "third-party types are registered by exact type through JSONSerializableTypeRegistry",
        "strings containing a high surrogate directly followed by a low surrogate are not generated (the json module itself joins them into one character)",
        "tuples/sets/dicts are outside the statement (it lists 'lists of these') and are not generated",
    ]
    budget = {
        "quick": dict(examples=1000, shards=16, seconds=45),
        "thorough": dict(examples=12000, shards=16, seconds=900),
    }

    def setup_worker(self):
        from ..models import json_tree  # noqa: F401  (registers third-party types)

    def strategy(self, tier, exclude):
        floats = st.one_of(
            st.floats(allow_nan=False, allow_infinity=False).map(lambda f: f.hex()),
            st.sampled_from(["nan", "inf", "-inf", (0.0).hex(), (-0.0).hex(), (5e-324).hex(), (1.7976931348623157e308).hex()]),
        )
        fin = st.floats(allow_nan=False, allow_infinity=False).map(lambda f: f.hex())
        chars = st.one_of(
            st.integers(0, 0x7F), st.integers(0, 0x10FFFF), st.sampled_from([0, 0xD800, 0xDFFF, 0x22, 0x5C, 0x2028, 0x1F600]))
        leaves = st.one_of(
            st.just(dict(t="none")),
            st.booleans().map(lambda b: dict(t="bool", v=b)),
            st.one_of(st.integers(-10, 10), st.integers(-2**70, 2**70), st.sampled_from([2**63, 2**64, -2**63 - 1, 2**53 + 1])).map(
                lambda i: dict(t="int", v=str(i))),
            floats.map(lambda h: dict(t="float", v=h)),
            st.lists(chars, max_size=8).map(lambda cs: dict(t="str", v=_no_surrogate_pairs(cs))),
            st.integers(0, 2**128 - 1).map(lambda i: dict(t="uuid", v=str(i))),
            st.decimals(allow_nan=False, allow_infinity=False, places=None).map(lambda d: dict(t="dec", v=str(d))),
            st.tuples(st.integers(-10**6, 10**6), st.integers(1, 10**6)).map(lambda p: dict(t="frac", v=[str(p[0]), str(p[1])])),
            st.tuples(fin, fin).map(lambda p: dict(t="complex", v=list(p))),
            st.datetimes(min_value=datetime.datetime(1, 1, 1), max_value=datetime.datetime(9999, 12, 31)).map(
                lambda d: dict(t="dt", v=d.isoformat())),
            st.dates().map(lambda d: dict(t="date", v=d.isoformat())),
            st.integers(-300, 300).map(lambda i: dict(t="celsius", v=i)),
            st.tuples(st.integers(-300, 300), st.integers(0, 5)).map(lambda p: dict(t="pcelsius", v=list(p))),
        )
        from ..models import json_tree as jt

        def extend(children):
            lists = st.lists(children, max_size=4).map(lambda v: dict(t="list", v=v))

            @st.composite
            def obj(draw):
                from ..models import json_tree_b as jtb

                c = draw(st.sampled_from(sorted(jt.CLASSES)))
                mod = jt
                if c in jtb.CLASSES and draw(st.sampled_from([0, 1])):
                    mod = jtb  # a class with the same simple name from another module
                f = {}
                for name in mod.FIELDS[c]:
                    f[name] = draw(lists) if name == "z" else draw(children)
                out = dict(t="obj", c=c, f=f)
                if mod is jtb:
                    out["m"] = "b"
                return out

            return st.one_of(lists, obj(), lists)

        max_leaves = 12 if tier == "quick" else 30
        return st.recursive(leaves, extend, max_leaves=max_leaves)

    def run(self, ir) -> Outcome:
        from krrood.adapters.json_serializer import from_json, to_json

        stats = _stats(ir)
        classes = sorted(k for k in stats["kinds"] if not k.startswith("cls:")) + [f"depth{min(stats['max_depth'], 5)}"]
        out = Outcome(nontrivial=stats["deep_obj_in_list"], classes=classes)
        value = build(ir)
        try:
            js = to_json(value)
            text = json.dumps(js)
            back = from_json(json.loads(text))
        except Exception as exc:
            return crash(exc, "round trip", classes=classes, nontrivial=out.nontrivial)
        d = check_tags(value, js)
        if d:
            return fail("missing_or_wrong_type_tag", d, classes=classes, nontrivial=out.nontrivial)
        d = same(value, back)
        if d:
            kind = "wrong_class" if ": type " in d else "value_changed"
            return fail(kind, d, classes=classes, nontrivial=out.nontrivial)
        return out


CHECK = C18()

"""C14 - asserting a relation has the same effect whatever objects lived and died before.

IR: {"prefix":[op...], "suffix":{"pop":[...], "steps":[...]}}  (suffix as in C15)
  prefix op: ["create", cls] | ["relate", s, field_choice, t] | ["drop", i] | ["gc"] | ["sweep"] | ["drop_all"]
Oracle: differential/metamorphic - the suffix run on a freshly cleared graph versus the same suffix after the
prefix (same graph lifetime as the prefix); the observation over the suffix objects must be identical.
"""
from __future__ import annotations

import gc

from hypothesis import strategies as st

from ..core import Check, Outcome, crash, fail
from ..onto import model as M
from .c15 import candidate_facts, gen_population

PREFIX_CLASSES = ["Org", "Agent", "Fellow"]


def sweep():
    """a query evaluation triggers the sweep of dead instances; its domain is explicit and unrelated, because a
    domain-less variable would pin the instances it ranges over (expression registries are process-wide, see the
    C20 finding) and nothing would ever die in this history"""
    from krrood.entity_query_language.entity import entity, let
    from krrood.entity_query_language.quantify_entity import an

    x = let(int, [1])
    list(an(entity(x)).evaluate())
    del x


def run_prefix(ops):
    """executes the garbage prefix; returns statistics"""
    from krrood.entity_query_language.entity import entity, let
    from krrood.entity_query_language.quantify_entity import an
    from krrood.entity_query_language.symbol_graph import SymbolGraph

    from ..models import ontology as O

    live = []
    stats = dict(related_then_died=0, created=0)
    related = set()
    for op in ops:
        k = op[0]
        if k == "create":
            live.append(O.CLASSES[op[1]](f"p{stats['created']}"))
            stats["created"] += 1
        elif k == "relate" and live:
            s = live[op[1] % len(live)]
            cls = type(s).__name__
            cands = [(f, rng) for (c, f), (d, kind, rng) in M.FIELDS.items() if c == cls]
            f, rng = cands[op[2] % len(cands)]
            targets = [x for x in live if type(x).__name__ in rng]
            if not targets:
                continue
            t = targets[op[3] % len(targets)]
            kind = M.FIELDS[(cls, f)][1]
            if kind == "single":
                if getattr(s, f) is None:
                    setattr(s, f, t)
            elif kind == "list":
                getattr(s, f).append(t)
            else:
                getattr(s, f).add(t)
            related.add(id(s))
            related.add(id(t))
        elif k == "unlink" and live:
            # the source of recorded relations stops holding their targets (the relations stay in the graph) and can
            # then outlive them
            orgs = [x for x in live if type(x).__name__ == "Org"]
            if orgs:
                o = orgs[op[1] % len(orgs)]
                o.linked_to = []
                o.part_of = []
        elif k == "drop" and live:
            x = live.pop(op[1] % len(live))
            if id(x) in related:
                stats["related_then_died"] += 1
            del x
        elif k == "gc":
            gc.collect()
        elif k == "sweep":
            sweep()
        elif k == "drop_all":
            stats["related_then_died"] += sum(1 for x in live if id(x) in related)
            live.clear()
            gc.collect()
    return live, stats


def run_suffix(suffix):
    inst, classes, taker = M.make_population(suffix["pop"])
    for st_ in suffix["steps"]:
        if st_["form"] == "sweep":
            sweep()
            continue
        s, f, ts, form = st_["s"], st_["f"], st_["t"], st_["form"]
        obj = inst[s]
        if form == "assign":
            setattr(obj, f, inst[ts[0]])
        elif form == "append":
            getattr(obj, f).append(inst[ts[0]])
        elif form == "add":
            getattr(obj, f).add(inst[ts[0]])
        elif form == "direct":
            from krrood.ontomatic.property_descriptor.property_descriptor_relation import PropertyDescriptorRelation

            wf = getattr(type(obj), f).wrapped_field
            PropertyDescriptorRelation(obj, inst[ts[0]], wf).add_to_graph()
    graph, fields, lists = M.observe(inst)
    return inst, classes, taker, graph, fields


class C14(Check):
    id = "C14"
    title = "Asserting a relation has the same effect whatever objects lived and died before"
    rule = (
        "Hypothesis draws a garbage prefix (create/relate/drop/gc/sweep-by-query operations in any order and number, "
        "so that graph node indexes and object ids are recycled) and a suffix (a population and 1-6 relation "
        "assertions: direct PropertyDescriptorRelation(...).add_to_graph(), single-valued assignment, container "
        "append/add, interleaved with sweeps-by-query so that dead prefix instances are swept when their ids may "
        "already belong to suffix objects). Oracle: differential - the suffix alone on a freshly cleared graph versus the same suffix "
        "after the prefix; fields of every suffix object and the graph relations among suffix objects must be "
        "identical (and equal to the reference closure). Non-trivial: the prefix related >= 2 instances that died "
        "before the suffix. Distinct = distinct IR."
    )
    assumptions = [
        "CPython reference counting plus explicit gc.collect(); prefix objects are dropped by deleting the harness' only references",
        "the suffix is a monotone C15-style history, so its effect on a fresh graph is the reference closure",
        "relations are observed over the suffix objects only (prefix survivors may keep their own relations)",
    ]
    budget = {
        "quick": dict(examples=320, shards=16, seconds=120),
        "thorough": dict(examples=8000, shards=16, seconds=1200),
    }

    def setup_worker(self):
        from ..models import ontology  # noqa: F401

        M.reset_graph()
        gc.collect()
        gc.freeze()  # imported modules are not garbage: keeps the many explicit gc.collect() calls cheap

    def strategy(self, tier, exclude):
        pre_op = st.one_of(
            st.tuples(st.just("create"), st.sampled_from(PREFIX_CLASSES)),
            st.tuples(st.just("create"), st.sampled_from(PREFIX_CLASSES)),
            st.tuples(st.just("relate"), st.integers(0, 7), st.integers(0, 7), st.integers(0, 7)),
            st.tuples(st.just("relate"), st.integers(0, 7), st.integers(0, 7), st.integers(0, 7)),
            st.tuples(st.just("drop"), st.integers(0, 7)),
            st.tuples(st.just("unlink"), st.integers(0, 7)),
            st.tuples(st.just("gc")), st.tuples(st.just("sweep")), st.tuples(st.just("drop_all")),
        ).map(list)

        @st.composite
        def ir(draw):
            prefix = []
            for _ in range(draw(st.integers(1, 3))):  # rounds of: create, relate, (partly) drop, collect, sweep
                prefix += [["create", draw(st.sampled_from(PREFIX_CLASSES))] for _ in range(draw(st.integers(2, 5)))]
                prefix += [["relate", draw(st.integers(0, 7)), draw(st.integers(0, 7)), draw(st.integers(0, 7))]
                           for _ in range(draw(st.integers(1, 5)))]
                prefix += draw(st.lists(pre_op, max_size=6))
                if draw(st.sampled_from([0, 0, 1])):
                    # a source that stops holding its targets, which then die and are swept while it lives on
                    prefix += [["unlink", draw(st.integers(0, 7))], ["drop", draw(st.integers(0, 7))], ["gc"], ["sweep"]]
                prefix += draw(st.sampled_from([[["drop_all"], ["sweep"]], [["drop_all"], ["sweep"]], [["drop_all"]], [["gc"], ["sweep"]], []]))
            pop = gen_population(draw, max_orgs=3, max_agents=2, max_bosses=1, allow_fellow=True)
            # creation order of the suffix population is shuffled relative to class order
            orgs = [i for i, p in enumerate(pop) if p["cls"] == "Org"]
            employer = {i: draw(st.sampled_from(orgs)) for i, p in enumerate(pop) if p["cls"] in ("Agent", "Fellow")}
            cands = candidate_facts(pop, employer)
            idxs = draw(st.lists(st.integers(0, len(cands) - 1), min_size=1, max_size=6, unique=True))
            steps = []
            for k in idxs:
                s, f, t = cands[k]
                kind = M.FIELDS[(pop[s]["cls"], f)][1]
                form = "assign" if kind == "single" else ("append" if kind == "list" else "add")
                if kind != "single" and draw(st.sampled_from([0, 0, 1])):
                    form = "direct"
                if draw(st.sampled_from([0, 0, 0, 1])):
                    # dead instances of the prefix are swept in the middle of the suffix, when their ids may already
                    # belong to suffix objects
                    steps.append({"s": 0, "f": "", "t": [], "form": "sweep"})
                steps.append({"s": s, "f": f, "t": [t], "form": form})
            return {"prefix": prefix, "suffix": {"pop": pop, "steps": steps}}

        return ir()

    def run(self, ir) -> Outcome:
        classes_ = []
        try:
            M.reset_graph()
            gc.collect()
            _, cls, taker, graph_a, fields_a = run_suffix(ir["suffix"])
            facts = [(s["s"], s["f"], t) for s in ir["suffix"]["steps"] for t in s["t"]]  # sweep steps have no targets
            del _
            want = M.closure(facts, cls, taker)
            # a direct add_to_graph() records the relation and infers from it, but writing the source's own field is
            # the descriptor's job: the asserted triple itself need not be in the field
            direct = {(s["s"], s["f"], t) for s in ir["suffix"]["steps"] if s["form"] == "direct" for t in s["t"]}
            if graph_a != want or not (want - direct <= fields_a <= want):
                lab0 = lambda tr: tuple(f"{cls[x]}{x}" if isinstance(x, int) else x for x in tr)
                return fail("fresh_graph_differs_from_closure",
                            f"graph missing={sorted(map(lab0, want - graph_a))[:4]} extra={sorted(map(lab0, graph_a - want))[:4]} "
                            f"fields missing={sorted(map(lab0, want - fields_a))[:4]} extra={sorted(map(lab0, fields_a - want))[:4]}")
        except Exception as exc:
            return crash(exc, "suffix on a fresh graph")
        try:
            M.reset_graph()
            gc.collect()
            survivors, stats = run_prefix(ir["prefix"])
        except Exception as exc:
            return crash(exc, "prefix", classes=classes_)
        nontrivial = stats["related_then_died"] >= 2
        classes_ = [f"died_related{min(stats['related_then_died'], 3)}", f"created{min(stats['created'] // 3, 3)}x3",
                    "survivors" if survivors else "no_survivors"] + sorted({s["form"] for s in ir["suffix"]["steps"]})
        try:
            inst, cls, taker, graph_b, fields_b = run_suffix(ir["suffix"])
        except Exception as exc:
            return crash(exc, "suffix after prefix", classes=classes_, nontrivial=nontrivial)
        n = len(inst)
        only_suffix = lambda rel: {r for r in rel if isinstance(r[0], int) and isinstance(r[2], int)}
        lab = lambda tr: tuple(f"{cls[x]}{x}" if isinstance(x, int) else x for x in tr)
        foreign = {r for r in graph_b | fields_b if isinstance(r[0], int) != isinstance(r[2], int)}
        if foreign:
            return fail("relation_attached_to_wrong_instance", f"suffix objects related to non-suffix objects: {sorted(map(lab, foreign), key=str)[:4]}",
                        classes=classes_, nontrivial=nontrivial)
        for name, a, b in (("graph", graph_a, only_suffix(graph_b)), ("fields", fields_a, only_suffix(fields_b))):
            if a != b:
                missing, extra = a - b, b - a
                kind = f"{name}_missing_after_prefix" if missing and not extra else (f"{name}_extra_after_prefix" if extra and not missing else f"{name}_differs_after_prefix")
                return fail(kind, f"missing={sorted(map(lab, missing))[:5]} extra={sorted(map(lab, extra))[:5]} prefix_stats={stats}",
                            classes=classes_, nontrivial=nontrivial)
        return Outcome(nontrivial=nontrivial, classes=classes_)


CHECK = C14()

"""CLI: python -m kverif check <ID> [--tier quick|thorough] | replay <file>"""
import argparse
import os
import sys


def main() -> int:
    if os.environ.get("PYTHONHASHSEED") != "0":
        env = dict(os.environ, PYTHONHASHSEED="0", PYTHONWARNINGS="ignore::SyntaxWarning")
        os.execve(sys.executable, [sys.executable, "-m", "kverif"] + sys.argv[1:], env)
    if os.environ.get("KVERIF_DEBUG"):
        import faulthandler
        import signal

        faulthandler.register(signal.SIGUSR1, all_threads=True)  # inherited by the forked workers
    ap = argparse.ArgumentParser(prog="kverif")
    sub = ap.add_subparsers(dest="cmd", required=True)
    c = sub.add_parser("check")
    c.add_argument("id")
    c.add_argument("--tier", default=os.environ.get("VERIF_TIER") or "quick", choices=["quick", "thorough"])
    c.add_argument("--examples", type=int, default=None)
    c.add_argument("--shards", type=int, default=None)
    r = sub.add_parser("replay")
    r.add_argument("file")
    args = ap.parse_args()
    from . import runner

    if args.cmd == "check":
        try:
            seed = int(os.environ.get("VERIF_SEED", "0") or 0)
        except ValueError:
            seed = 0
        try:
            return runner.run_check(args.id.upper(), args.tier, seed, args.examples, args.shards)
        except Exception as exc:  # harness failure: inconclusive, never a VIOLATION
            import traceback

            traceback.print_exc()
            print(f"HARNESS-ERROR property={args.id} {type(exc).__name__}: {exc}")
            return 2
    if args.cmd == "replay":
        return runner.replay_file(args.file)
    return 2


if __name__ == "__main__":
    sys.exit(main())

"""Reference semantics of the harness ontology (kverif/models/ontology.py), written as plain tables and a
fixpoint closure that never touches krrood, plus helpers to read the observable state of the real thing."""
from __future__ import annotations

from typing import Dict, FrozenSet, Iterable, List, Set, Tuple

# (class, field) -> (descriptor, kind, range classes)
FIELDS = {
    ("Agent", "works_for"): ("WorksFor", "single", ("Org",)),
    ("Agent", "member_of"): ("MemberOf", "list", ("Org",)),
    ("Agent", "affiliated_with"): ("AffiliatedWith", "set", ("Org",)),
    # Fellow(Agent): the inherited fields, and the field of the top-most super property that only this subclass has
    ("Fellow", "works_for"): ("WorksFor", "single", ("Org",)),
    ("Fellow", "member_of"): ("MemberOf", "list", ("Org",)),
    ("Fellow", "affiliated_with"): ("AffiliatedWith", "set", ("Org",)),
    ("Fellow", "connected_to"): ("ConnectedTo", "set", ("Org",)),
    ("Boss", "head_of"): ("HeadOf", "single", ("Org",)),
    ("Org", "members"): ("Member", "set", ("Agent", "Fellow")),
    ("Org", "part_of"): ("PartOf", "list", ("Org",)),
    ("Org", "has_part"): ("HasPart", "list", ("Org",)),
    ("Org", "linked_to"): ("LinkedTo", "list", ("Org",)),
    ("Org", "headed_by"): ("HeadedBy", "list", ("Boss",)),
}
SUPER = {  # strict super-properties
    "HeadOf": ("WorksFor", "MemberOf", "AffiliatedWith", "ConnectedTo"),
    "WorksFor": ("MemberOf", "AffiliatedWith", "ConnectedTo"),
    "MemberOf": ("AffiliatedWith", "ConnectedTo"),
    "AffiliatedWith": ("ConnectedTo",),
}
INVERSE = {"MemberOf": "Member", "WorksFor": "Member", "HeadOf": "HeadedBy", "HeadedBy": "HeadOf", "Member": "MemberOf",
           "PartOf": "HasPart", "HasPart": "PartOf"}
TRANSITIVE = {"PartOf", "HasPart", "LinkedTo"}
ROLE_TAKER = {"Boss": ("agent", "Agent")}

Fact = Tuple[int, str, str, int]  # (source index, source class, field, target index)


def fields_of(cls: str):
    return [(f, d) for (c, f), (d, _, _) in FIELDS.items() if c == cls]


def closure(facts: Iterable[Tuple[int, str, int]], classes: List[str], taker: Dict[int, int]) -> Set[Tuple[int, str, int]]:
    """facts: (source index, field name, target index); classes[i] = class name of instance i; taker[i] = index of
    the role taker of role instance i. Returns the least fixpoint under super-property, inverse and transitivity."""
    out: Set[Tuple[int, str, int]] = set()
    work = list(facts)
    while work:
        s, f, t = work.pop()
        if (s, f, t) in out:
            continue
        out.add((s, f, t))
        desc = FIELDS[(classes[s], f)][0]
        # super-properties on the source, and on its role taker
        for g, d in fields_of(classes[s]):
            if d in SUPER.get(desc, ()):
                work.append((s, g, t))
        if classes[s] in ROLE_TAKER:
            r = taker[s]
            for g, d in fields_of(classes[r]):
                if d in SUPER.get(desc, ()):
                    work.append((r, g, t))
        # inverse on the target, or on its role taker
        inv = INVERSE.get(desc)
        if inv:
            direct = [g for g, d in fields_of(classes[t]) if d == inv]
            if direct:
                work.append((t, direct[0], s))
            elif classes[t] in ROLE_TAKER:
                r = taker[t]
                via = [g for g, d in fields_of(classes[r]) if d == inv]
                if via:
                    work.append((r, via[0], s))
        # transitivity: same descriptor
        if desc in TRANSITIVE:
            for (s2, f2, t2) in list(out):
                if FIELDS[(classes[s2], f2)][0] != desc:
                    continue
                if s2 == t:
                    work.append((s, f2, t2))
                if t2 == s:
                    work.append((s2, f, t))
    return out


# ----------------------------------------------------------------------------- observing krrood
def observe(instances) -> Tuple[Set[Tuple[int, str, int]], Set[Tuple[int, str, int]], Dict]:
    """returns (graph relations, field contents, duplicates) over the given live instances (by index)"""
    from krrood.entity_query_language.symbol_graph import SymbolGraph

    idx = {id(o): i for i, o in enumerate(instances)}
    graph = set()
    for r in SymbolGraph().relations():
        s, t = r.source.instance, r.target.instance
        if s is None or t is None:
            continue
        if id(s) in idx and id(t) in idx:
            graph.add((idx[id(s)], r.wrapped_field.name, idx[id(t)]))
        else:
            graph.add((idx.get(id(s), repr(s)), r.wrapped_field.name, idx.get(id(t), repr(t))))
    fields = set()
    lists = {}
    for i, o in enumerate(instances):
        cls = type(o).__name__
        for (c, f), (d, kind, _) in FIELDS.items():
            if c != cls:
                continue
            v = getattr(o, f)
            if kind == "single":
                if v is not None:
                    fields.add((i, f, idx.get(id(v), repr(v))))
            else:
                items = list(v)
                lists[(i, f)] = [idx.get(id(x), repr(x)) for x in items]
                for x in items:
                    fields.add((i, f, idx.get(id(x), repr(x))))
    return graph, fields, lists


_FULL_RESETS = [0]


def reset_graph(full: bool = False):
    """Start a new graph lifetime. The public way is SymbolGraph().clear(); SymbolGraph(), which rebuilds the class
    diagram (and leaks the old one through lru_caches keyed by it, which makes long runs slower and slower). Between
    cases the harness therefore empties the instance-level containers of the existing graph in place and falls back
    to the public way whenever those containers are not what it expects."""
    from krrood.entity_query_language.symbol_graph import SymbolGraph

    g = SymbolGraph()
    try:
        if full or _FULL_RESETS[0] == 0:
            raise AttributeError("first reset of the process is a full one")
        import rustworkx

        g._instance_graph = type(g._instance_graph)()
        g._instance_index.clear()
        g._class_to_wrapped_instances.clear()
        g._relation_index.clear()
    except AttributeError:
        _FULL_RESETS[0] += 1
        SymbolGraph().clear()
        SymbolGraph()


def make_population(pop):
    """pop: list of {"cls": "Org"|"Agent"|"Boss", "agent": index (for Boss)} -> (instances, classes, taker)"""
    from ..models import ontology as O

    instances, classes, taker = [], [], {}
    for i, p in enumerate(pop):
        if p["cls"] == "Boss":
            instances.append(O.Boss(instances[p["agent"]]))
            taker[i] = p["agent"]
        else:
            instances.append(O.CLASSES[p["cls"]](f"{p['cls'][0].lower()}{i}"))
        classes.append(p["cls"])
    return instances, classes, taker

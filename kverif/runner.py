"""Runner: phases (replay, search, classify, evidence), sharding, seeds, exit codes.

Exit codes: 0 = held on everything explored (known findings printed as KNOWN-FINDING),
1 = at least one violation no listed finding explains (VIOLATION line printed),
2 = harness error (inconclusive; never printed as VIOLATION).
"""
from __future__ import annotations

import importlib
import json
import os
import sys
import time
import traceback
import zlib
from collections import Counter
import multiprocessing as mp
from typing import Any, Dict, List, Optional, Tuple

from .core import VERIF_ROOT, Check, Outcome, canon, crash, install_repo_path, ir_hash

FINDINGS_FILE = os.path.join(VERIF_ROOT, "known_findings.json")
# distinct root causes enumerated per shard before giving up (tools/seeded.py only needs the first)
MAX_ROUNDS = int(os.environ.get("KVERIF_MAX_ROUNDS", "4"))
SAMPLES_KEPT = 6


def load_check(check_id: str) -> Check:
    install_repo_path()
    mod = importlib.import_module(f"kverif.checks.{check_id.lower()}")
    return mod.CHECK


def shard_seed(seed: int, shard: int, check_id: str) -> int:
    return (seed * 1000003 + shard * 7919 + zlib.crc32(check_id.encode())) & 0x7FFFFFFF


def load_findings(check_id: str) -> List[Dict[str, Any]]:
    if not os.path.exists(FINDINGS_FILE):
        return []
    with open(FINDINGS_FILE) as fh:
        data = json.load(fh)
    return [f for f in data.get("findings", []) if f["property"] == check_id]


def safe_run(check: Check, ir: Any) -> Outcome:
    try:
        return check.run(ir)
    except (ImportError, SyntaxError):
        raise  # the tree under test does not import: harness error, not a verdict
    except Exception as exc:  # a harness/oracle bug or an unexpected krrood crash
        return crash(exc, "unhandled in check.run")


def finding_matches(finding: Dict[str, Any], kind: str, features: set) -> bool:
    """A failure is attributed to a finding iff the discrepancy kind is one the finding lists and the
    (shrunk) IR has one of the finding's structural features."""
    kinds = finding.get("kinds") or ([finding["kind"]] if finding.get("kind") else [])
    if kinds and kind not in kinds:
        return False
    return any(f in features for f in finding.get("match_any", []))


def finding_exclusions(finding: Dict[str, Any]) -> List[str]:
    return list(finding.get("exclude") or finding.get("match_any") or [])


# ----------------------------------------------------------------------------- replay phase
def _replay_task(check_id: str) -> Dict[str, Any]:
    """Runs in a worker: replays findings' reproducers and the regression corpus."""
    check = load_check(check_id)
    check.setup_worker()
    res: Dict[str, Any] = {"findings": [], "corpus": [], "error": None}
    for f in load_findings(check_id):
        path = os.path.join(VERIF_ROOT, f["replay"])
        with open(path) as fh:
            doc = json.load(fh)
        out = safe_run(check, doc["ir"])
        feats = set(out.features) | check.static_features(doc["ir"])
        res["findings"].append(
            dict(
                id=f["id"],
                still_fails=not out.ok,
                matches=(not out.ok) and finding_matches(f, out.kind, feats),
                kind=out.kind,
                detail=out.detail[:500],
                replay=f["replay"],
            )
        )
    finding_files = {os.path.normpath(f["replay"]) for f in load_findings(check_id)}
    cdir = os.path.join(VERIF_ROOT, "replays", check_id)
    if os.path.isdir(cdir):
        for name in sorted(os.listdir(cdir)):
            rel = os.path.normpath(os.path.join("replays", check_id, name))
            if not name.endswith(".json") or rel in finding_files:
                continue
            with open(os.path.join(cdir, name)) as fh:
                doc = json.load(fh)
            out = safe_run(check, doc["ir"])
            feats = set(out.features) | check.static_features(doc["ir"])
            res["corpus"].append(
                dict(file=rel, ok=out.ok, kind=out.kind, bucket=out.bucket, detail=out.detail[:800],
                     features=sorted(feats), nontrivial=out.nontrivial, rejected=out.rejected)
            )
    return res


# ----------------------------------------------------------------------------- search phase
class _Fail(Exception):
    pass


def _search_task(check_id: str, tier: str, shard: int, seed: int, exclude: List[str],
                 examples: int, seconds: float, do_enumerate: bool) -> Dict[str, Any]:
    import hypothesis
    from hypothesis import HealthCheck, Phase, given, settings

    import warnings

    warnings.simplefilter("ignore")
    check = load_check(check_id)
    check.setup_worker()
    excl = frozenset(exclude)
    t0 = time.monotonic()
    st: Dict[str, Any] = dict(
        evaluations=0, rejected=0, excluded_by_finding=0, duplicates_of_reported=0,
        truncated_by_time=False, classes=Counter(), nontrivial=set(), samples=[], trivial_samples=[],
        failures=[], harness_error=None, enumerated=0, excluded_by_feature=Counter(),
    )
    reported_keys: set = set()
    round_fail: Dict[Tuple[str, str], Tuple[Any, Outcome]] = {}
    shrink_deadline: List[Optional[float]] = [None]
    shrink_budget = 45.0 if tier == "quick" else 240.0

    def one(ir: Any, counting: bool = True):
        feats = check.static_features(ir)
        if feats & excl:
            st["excluded_by_finding"] += 1
            for f in feats & excl:
                st["excluded_by_feature"][f] += 1
            return
        out = safe_run(check, ir)
        if out.rejected:
            st["rejected"] += 1
            return
        st["evaluations"] += 1
        for c in out.classes:
            st["classes"][c] += 1
        if out.ok:
            if out.nontrivial:
                h = ir_hash(ir)
                if h not in st["nontrivial"]:
                    st["nontrivial"].add(h)
                    if len(st["samples"]) < SAMPLES_KEPT:
                        st["samples"].append(ir)
            elif len(st["trivial_samples"]) < 2:
                st["trivial_samples"].append(ir)
            return
        out.features = set(out.features) | feats
        key = out.key()
        if key in reported_keys:
            st["duplicates_of_reported"] += 1
            return
        round_fail[key] = (ir, out)
        raise _Fail(f"{out.kind}: {out.detail[:200]}")

    # exhaustive part (finite domains), split over shards
    if do_enumerate:
        it = check.enumerate(tier)
        if it is not None:
            for i, ir in enumerate(it):
                if i % max(1, _N_SHARDS[0]) != shard:
                    continue
                st["enumerated"] += 1
                try:
                    one(ir)
                except _Fail:
                    for key, (fir, out) in list(round_fail.items()):
                        st["failures"].append(_failure_doc(fir, out))
                        reported_keys.add(key)
                    round_fail.clear()

    def prop(ir):
        now = time.monotonic()
        if shrink_deadline[0] is not None:
            if now > shrink_deadline[0]:
                return  # shrink budget used up: make remaining shrink attempts free
        elif now - t0 > seconds:
            st["truncated_by_time"] = True
            return
        try:
            one(ir)
        except _Fail:
            if shrink_deadline[0] is None:
                shrink_deadline[0] = time.monotonic() + shrink_budget
            raise

    remaining = examples
    rounds = 0
    while remaining > 0 and rounds < MAX_ROUNDS and examples > 0:
        rounds += 1
        before = st["evaluations"] + st["rejected"] + st["excluded_by_finding"]
        round_fail.clear()
        shrink_deadline[0] = None
        test = given(check.strategy(tier, excl))(prop)
        test = hypothesis.seed(shard_seed(seed, shard, check_id) + rounds - 1)(test)
        test = settings(
            max_examples=remaining, database=None, deadline=None, derandomize=False,
            report_multiple_bugs=False, print_blob=False,
            suppress_health_check=[HealthCheck.too_slow, HealthCheck.data_too_large,
                                   HealthCheck.filter_too_much, HealthCheck.large_base_example],
            phases=[Phase.generate, Phase.shrink],
        )(test)
        try:
            test()
        except _Fail:
            pass
        except BaseException as exc:  # Flaky (shrink budget bypass), Unsatisfiable, harness bugs
            name = type(exc).__name__
            if not round_fail and name not in ("Flaky", "FlakyFailure", "FlakyReplay"):
                st["harness_error"] = f"{name}: {exc}\n" + traceback.format_exc()[-1500:]
                break
        if not round_fail:
            break
        # the last failing IR recorded per key is the most shrunk one
        for key, (fir, out) in round_fail.items():
            st["failures"].append(_failure_doc(fir, out))
            reported_keys.add(key)
        used = st["evaluations"] + st["rejected"] + st["excluded_by_finding"] - before
        remaining -= max(used, 1)
        if time.monotonic() - t0 > seconds:
            st["truncated_by_time"] = True
            break
    st["classes"] = dict(st["classes"])
    st["excluded_by_feature"] = dict(st["excluded_by_feature"])
    st["nontrivial"] = sorted(st["nontrivial"])
    st["wall"] = time.monotonic() - t0
    st["extra"] = check.extra_evidence()
    return st


_N_SHARDS = [16]


def _failure_doc(ir: Any, out: Outcome) -> Dict[str, Any]:
    return dict(ir=ir, kind=out.kind, bucket=out.bucket, detail=out.detail,
                features=sorted(out.features))


# ----------------------------------------------------------------------------- orchestration
def write_evidence(check: Check, tier: str, seed: int, cov: Dict[str, Any], wall: float,
                   violations: int) -> str:
    edir = os.environ.get("KVERIF_EVIDENCE") or os.path.join(VERIF_ROOT, "evidence")
    os.makedirs(edir, exist_ok=True)
    path = os.path.join(edir, f"{check.id}.json")
    doc = dict(
        property_id=check.id, tier=tier, seed=seed, level="exploration", coverage=cov,
        assumptions=list(check.assumptions), wall_s=round(wall, 2), violations=violations,
    )
    tmp = path + ".tmp"
    with open(tmp, "w") as fh:
        json.dump(doc, fh, indent=1, sort_keys=True, default=repr)
    os.replace(tmp, path)
    return path


def save_replay(check_id: str, doc: Dict[str, Any]) -> str:
    d = os.path.join(os.environ.get("KVERIF_OUT") or os.path.join(VERIF_ROOT, "out"), "replays", check_id)
    os.makedirs(d, exist_ok=True)
    path = os.path.join(d, f"{ir_hash(doc['ir'])}.json")
    with open(path, "w") as fh:
        json.dump(dict(property=check_id, **doc), fh, indent=1, sort_keys=True, default=repr)
    return path


def run_check(check_id: str, tier: str, seed: int, examples_override: Optional[int] = None,
              shards_override: Optional[int] = None) -> int:
    t0 = time.monotonic()
    check = load_check(check_id)
    budget = dict(check.budget[tier])
    if examples_override is not None:
        budget["examples"] = examples_override
    if shards_override is not None:
        budget["shards"] = shards_override
    n_shards = budget["shards"]
    _N_SHARDS[0] = n_shards
    ctx = mp.get_context("fork")
    violations: List[Dict[str, Any]] = []
    known_lines: List[str] = []
    harness_errors: List[str] = []
    try:
        task_timeout = float(budget["seconds"]) * 2 + 600
        with ctx.Pool(processes=min(16, max(1, n_shards)), maxtasksperchild=1) as pool:
            rep = pool.apply_async(_replay_task, (check_id,)).get(timeout=task_timeout)
            findings = load_findings(check_id)
            active: List[Dict[str, Any]] = []
            finding_status = []
            for f, r in zip(findings, rep["findings"]):
                finding_status.append(dict(id=f["id"], still_fails=r["still_fails"], matches=r["matches"]))
                if r["still_fails"] and r["matches"]:
                    active.append(f)
                    known_lines.append(f"KNOWN-FINDING: property={check_id} {f['id']}: {f['description']}")
                elif r["still_fails"]:
                    # the reproducer fails, but not in the way the finding describes
                    violations.append(dict(source=f["replay"], kind=r["kind"], detail=r["detail"],
                                           path=os.path.join(VERIF_ROOT, f["replay"])))
            for c in rep["corpus"]:
                if c["ok"] or c["rejected"]:
                    continue
                if any(finding_matches(f, c["kind"], set(c["features"])) for f in active):
                    continue
                violations.append(dict(source=c["file"], kind=c["kind"], detail=c["detail"],
                                       path=os.path.join(VERIF_ROOT, c["file"])))
            exclude = sorted({x for f in active for x in finding_exclusions(f)})
            futs = [
                pool.apply_async(_search_task, (check_id, tier, s, seed, exclude, budget["examples"],
                                                float(budget["seconds"]), True))
                for s in range(n_shards)
            ]
            shard_results = [f.get(timeout=task_timeout) for f in futs]
    except mp.TimeoutError:
        print(f"HARNESS-ERROR property={check_id} a worker did not answer (died or hung)")
        return 2
    except Exception as exc:
        print(f"HARNESS-ERROR property={check_id} {type(exc).__name__}: {exc}")
        traceback.print_exc()
        return 2

    cov: Dict[str, Any] = dict(evaluations=0, rejected_by_precondition=0, excluded_by_finding=0,
                               duplicates_of_reported=0, enumerated=0)
    classes: Counter = Counter()
    excluded_by_feature: Counter = Counter()
    nontrivial: set = set()
    samples: List[Any] = []
    trivial_samples: List[Any] = []
    truncated = False
    extra: Dict[str, Any] = {}
    seen_fail_keys = set()
    for s in shard_results:
        cov["evaluations"] += s["evaluations"]
        cov["rejected_by_precondition"] += s["rejected"]
        cov["excluded_by_finding"] += s["excluded_by_finding"]
        cov["duplicates_of_reported"] += s["duplicates_of_reported"]
        cov["enumerated"] += s["enumerated"]
        classes.update(s["classes"])
        excluded_by_feature.update(s.get("excluded_by_feature", {}))
        nontrivial.update(s["nontrivial"])
        truncated = truncated or s["truncated_by_time"]
        for x in s["samples"]:
            if len(samples) < SAMPLES_KEPT:
                samples.append(x)
        for x in s["trivial_samples"]:
            if len(trivial_samples) < 2:
                trivial_samples.append(x)
        if s["harness_error"]:
            harness_errors.append(s["harness_error"])
        for k, v in (s.get("extra") or {}).items():
            if isinstance(v, (int, float)):
                extra[k] = extra.get(k, 0) + v
            else:
                extra[k] = v
        for fdoc in s["failures"]:
            feats = set(fdoc["features"])
            if any(finding_matches(f, fdoc["kind"], feats) for f in active):
                cov.setdefault("failures_attributed_to_findings", 0)
                cov["failures_attributed_to_findings"] += 1
                continue
            key = (fdoc["kind"], fdoc["bucket"])
            path = save_replay(check_id, fdoc)
            if key in seen_fail_keys:
                continue
            seen_fail_keys.add(key)
            violations.append(dict(source="search", kind=fdoc["kind"], detail=fdoc["detail"], path=path))
    cov["distinct_nontrivial"] = len(nontrivial)
    cov["rule"] = check.rule
    cov["samples"] = (samples + trivial_samples)[:SAMPLES_KEPT] or ["<no case executed>"]
    cov["classes"] = dict(sorted(classes.items()))
    cov["shards"] = n_shards
    cov["examples_per_shard"] = budget["examples"]
    cov["truncated_by_time"] = truncated
    cov["exhaustive"] = bool(check.exhaustive and budget["examples"] == 0)
    cov["replayed"] = dict(findings=finding_status,
                           corpus_files=len(rep["corpus"]),
                           corpus_nontrivial=sum(1 for c in rep["corpus"] if c["nontrivial"]))
    cov["active_findings"] = [f["id"] for f in active]
    cov["excluded_features"] = exclude
    cov["excluded_by_feature"] = dict(sorted(excluded_by_feature.items()))
    cov.update(extra)
    wall = time.monotonic() - t0
    write_evidence(check, tier, seed, cov, wall, len(violations))
    for line in known_lines:
        print(line)
    print(f"[{check_id}] tier={tier} seed={seed} evaluations={cov['evaluations']} "
          f"nontrivial={cov['distinct_nontrivial']} excluded={cov['excluded_by_finding']} "
          f"rejected={cov['rejected_by_precondition']} wall={wall:.1f}s truncated={truncated}")
    if harness_errors and not violations:
        print(f"HARNESS-ERROR property={check_id}\n" + harness_errors[0])
        return 2
    if violations:
        for v in violations:
            print(f"VIOLATION property={check_id} replay={v['path']}")
            print(f"  kind={v['kind']} source={v['source']}")
            print("  " + v["detail"].replace("\n", "\n  ")[:1500])
        return 1
    return 0


def replay_file(path: str) -> int:
    with open(path) as fh:
        doc = json.load(fh)
    check = load_check(doc["property"])
    check.setup_worker()
    out = safe_run(check, doc["ir"])
    feats = sorted(set(out.features) | check.static_features(doc["ir"]))
    print(json.dumps(dict(ok=out.ok, kind=out.kind, bucket=out.bucket, nontrivial=out.nontrivial,
                          rejected=out.rejected, classes=out.classes, features=feats), indent=1))
    if not out.ok:
        print(out.detail)
        print(f"VIOLATION property={doc['property']} replay={path}")
        return 1
    return 0

"""Generate, import and configure the SQLAlchemy layer for a model IR (shared by C04, C05)."""
from __future__ import annotations

import os
import sys

from . import modelir as MI
from .checks.c06 import import_file, scratch_dir


class Layer:
    def __init__(self, model, eq=False):
        from krrood.class_diagrams.class_diagram import ClassDiagram
        from krrood.ormatic.ormatic import ORMatic

        self.model = model
        self.dir = scratch_dir()
        self.mod, self.clss = MI.load(model, self.dir, eq=eq)
        self.gen = None
        self.gen_name = self.mod.__name__ + "_dao"
        self.gen_path = os.path.join(self.dir, self.gen_name + ".py")
        classes = [self.clss[i] for i in model["order"]]
        kwargs = {}
        if model.get("extras"):
            classes = classes + [self.mod.Vec, self.mod.Label, self.mod.Title, self.mod.Track]
            kwargs = dict(alternative_mappings=[self.mod.VecMapping, self.mod.LabelMapping, self.mod.TrackMapping],
                          type_mappings={self.mod.Money: self.mod.MoneyType})
        orm = ORMatic(ClassDiagram(classes), **kwargs)
        orm.make_all_tables()
        with open(self.gen_path, "w") as fh:
            orm.to_sqlalchemy_file(fh)
        self.gen = import_file(self.gen_path, self.gen_name)
        self.gen.Base.registry.configure()

    def dao_class(self, cls):
        name = {"Vec": "VecMapping", "Label": "LabelMapping", "Track": "TrackMapping"}.get(cls.__name__, cls.__name__) + "DAO"
        return getattr(self.gen, name)

    def close(self):
        try:
            if self.gen is not None:
                self.gen.Base.registry.dispose()
        except Exception:
            pass
        for m in (self.gen_name, self.mod.__name__):
            sys.modules.pop(m, None)
        for p in (self.gen_path, os.path.join(self.dir, self.mod.__name__ + ".py")):
            try:
                os.remove(p)
            except OSError:
                pass

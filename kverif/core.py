"""Shared vocabulary of all checks: outcome of one case, the check interface."""
from __future__ import annotations

import hashlib
import json
import os
import sys
import traceback
from dataclasses import dataclass, field
from typing import Any, Dict, Iterable, List, Optional, Set

VERIF_ROOT = os.path.dirname(os.path.dirname(os.path.abspath(__file__)))
REPO_ROOT = os.environ.get("KVERIF_REPO", "/repo")


def repo_paths() -> List[str]:
    return [os.path.join(REPO_ROOT, "src"), REPO_ROOT]


def install_repo_path() -> None:
    """Make `import krrood` and `import test.dataset...` resolve to the tree under test."""
    deps = os.path.join(VERIF_ROOT, ".deps")
    for p in reversed(repo_paths() + [VERIF_ROOT] + ([deps] if os.path.isdir(deps) else [])):
        if p in sys.path:
            sys.path.remove(p)
        sys.path.insert(0, p)


def canon(ir: Any) -> str:
    return json.dumps(ir, sort_keys=True, separators=(",", ":"), default=repr)


def ir_hash(ir: Any) -> str:
    return hashlib.sha1(canon(ir).encode()).hexdigest()[:16]


@dataclass
class Outcome:
    """Result of interpreting one IR against krrood and against the oracle."""

    ok: bool = True
    kind: str = ""  # discrepancy kind when not ok (extra_row, missing_row, crash, ...)
    detail: str = ""
    bucket: str = ""  # root-cause bucket inside the kind (e.g. exception type + frame)
    nontrivial: bool = False
    classes: List[str] = field(default_factory=list)  # generator classes this case falls in
    features: Set[str] = field(default_factory=set)  # structural features used by findings
    rejected: bool = False  # the IR violated a generator precondition; not evaluated

    def key(self):
        return (self.kind, self.bucket)


def fail(kind: str, detail: str, bucket: str = "", **kw) -> Outcome:
    return Outcome(ok=False, kind=kind, detail=detail, bucket=bucket or kind, **kw)


def crash_bucket(exc: BaseException) -> str:
    """(exception type, innermost krrood frame) - the bucket of a crash."""
    tb = traceback.extract_tb(exc.__traceback__)
    frame = ""
    for fr in tb:
        fn = fr.filename.replace("\\", "/")
        if "/krrood/" in fn:
            frame = f"{fn.split('/krrood/')[-1]}:{fr.name}"
    return f"{type(exc).__name__}@{frame}"


def crash(exc: BaseException, where: str = "", **kw) -> Outcome:
    tb = "".join(traceback.format_exception(type(exc), exc, exc.__traceback__)[-6:])
    return Outcome(
        ok=False,
        kind="crash",
        detail=f"{where}: {type(exc).__name__}: {exc}\n{tb}"[:3000],
        bucket=crash_bucket(exc),
        **kw,
    )


class Check:
    """Interface every property check implements."""

    id: str = ""
    title: str = ""
    rule: str = ""  # how cases are generated and what makes one non-trivial
    assumptions: List[str] = []
    # budget: per tier -> dict(examples=<per shard>, shards=<n>, seconds=<wall cap for search>)
    budget: Dict[str, Dict[str, int]] = {
        "quick": dict(examples=200, shards=16, seconds=60),
        "thorough": dict(examples=5000, shards=16, seconds=900),
    }
    exhaustive = False

    def setup_worker(self) -> None:
        """Called once in every worker process before any case."""

    def strategy(self, tier: str, exclude: frozenset):
        """Hypothesis strategy of JSON-able IRs. `exclude` = features of active findings."""
        raise NotImplementedError

    def enumerate(self, tier: str) -> Optional[Iterable[Any]]:
        """Optional exhaustive enumeration executed before the random search."""
        return None

    def static_features(self, ir: Any) -> Set[str]:
        """Structural features of the IR that known findings refer to (pre-execution)."""
        return set()

    def run(self, ir: Any) -> Outcome:
        raise NotImplementedError

    def extra_evidence(self) -> Dict[str, Any]:
        return {}

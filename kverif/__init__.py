"""kverif: property-based verification machinery for code-iai/krrood.

Run with ``/venv/bin/python -m kverif check <ID> --tier quick|thorough``.
"""

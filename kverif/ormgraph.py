"""Object graphs over a model IR: strategy, construction, and the isomorphism (bisimulation) comparer.

Graph IR: {"nodes":[{"c": class index | "Vec" | "Label" | "Title", "v": {field: value}}], "roots":[node indexes]}
  value per field kind: scalar -> JSON scalar (datetime as iso string, enum as "RED"/"BLUE", float as hex string);
  opt -> None or the inner value; list of builtins -> list; ref -> node index (or None for Optional);
  collection of refs -> list of node indexes; alt -> node index of a Vec node; lab -> node index of a Label/Title
  node (Title: a normally mapped subclass of the alternatively mapped Label); custom -> int (cents) or None.
"""
from __future__ import annotations

import datetime
import math
from typing import Any, Dict, List, Optional

from hypothesis import strategies as st

from . import modelir as MI

EXTRA_NODES = ("Vec", "Label", "Title", "Track")
EXTRA_REFS = ("alt", "lab", "trk")


# ----------------------------------------------------------------------------- strategy
def _scalar_value(draw, k, sql=False):
    if k == "float" and sql:
        # SQLite does not keep the sign of a floating point zero
        return draw(st.sampled_from([0.0, 0.5, -1.25, 1e-9, 1e15, 3.0])).hex()
    if k == "int":
        return draw(st.one_of(st.integers(-3, 3), st.sampled_from([2**31 - 1, -2**31, 2**53, 10**15])))
    if k == "float":
        return draw(st.sampled_from([0.0, -0.0, 0.5, -1.25, 1e-9, 1e15, 3.0])).hex()
    if k == "str":
        # incl. substrings of one another and strings that look like ISO dates
        return draw(st.sampled_from(["", "a", "A b", "A", "b", "é", "ß中", "x" * 40, "'quote\"", "%_", "2024-05-17", "20240517"]))
    if k == "bool":
        return draw(st.booleans())
    if k == "datetime":
        return draw(st.sampled_from(["2020-01-01T00:00:00", "1999-12-31T23:59:59", "2024-02-29T12:30:45.123456", "1970-01-01T00:00:00"]))
    if k == "enum":
        return draw(st.sampled_from(["RED", "BLUE"]))
    if k == "uuid":
        return draw(st.sampled_from(["00000000-0000-0000-0000-000000000000", "12345678-1234-5678-1234-567812345678",
                                     "ffffffff-ffff-4fff-bfff-ffffffffffff"]))
    raise ValueError(k)


@st.composite
def graph_ir(draw, model, max_nodes=8, sql=False):
    classes = model["classes"]
    n_cls = len(classes)
    n = draw(st.integers(1, max_nodes))
    kinds = [draw(st.integers(0, n_cls - 1)) for _ in range(n)]
    nodes = [{"c": k, "v": {}} for k in kinds]
    vec_nodes: List[int] = []

    def instances_of(target):
        return [i for i, nd in enumerate(nodes) if nd["c"] not in EXTRA_NODES and (nd["c"] == target or target in MI.ancestors(model, nd["c"]))]

    def new_vec():
        if vec_nodes and draw(st.booleans()):
            return draw(st.sampled_from(vec_nodes))  # aliasing of alternatively mapped objects
        # x is unique per Vec node, so that collections of Vecs can be matched without guessing after SQL
        nodes.append({"c": "Vec", "v": {"x": (float(len(nodes)) + draw(st.sampled_from([0.0, 0.5]))).hex(), "y": draw(st.sampled_from([0.0, 0.25, -1.0])).hex()}})
        vec_nodes.append(len(nodes) - 1)
        return len(nodes) - 1

    lab_nodes: List[int] = []

    def new_lab():
        if lab_nodes and draw(st.booleans()):
            return draw(st.sampled_from(lab_nodes))  # the same label object referenced from several places
        c = draw(st.sampled_from(["Label", "Title", "Title"]))
        v = {"text": draw(st.sampled_from(["", "a", "é b"])), "code": len(nodes)}  # code is unique per node
        if c == "Title":
            v["size"] = draw(st.integers(-2, 2))
        nodes.append({"c": c, "v": v})
        lab_nodes.append(len(nodes) - 1)
        return len(nodes) - 1

    def new_trk():
        # key is unique per node; the points become temporary Vec objects while the track is converted
        pts = [[float(draw(st.integers(-2, 2))).hex(), float(draw(st.integers(-2, 2))).hex()] for _ in range(draw(st.integers(0, 4)))]
        nodes.append({"c": "Track", "v": {"key": len(nodes), "points": pts}})
        return len(nodes) - 1

    for i in range(n):
        for f in MI.all_fields(model, nodes[i]["c"]):
            name, t = f["name"], f["t"]
            if name == "uid":
                nodes[i]["v"][name] = i
                continue
            k = t["k"]
            if k in MI.PY:
                val = _scalar_value(draw, k, sql)
            elif k == "opt":
                if draw(st.sampled_from([0, 1, 1])) == 0:
                    val = None
                else:
                    inner = t["of"]
                    if inner["k"] in MI.PY:
                        val = _scalar_value(draw, inner["k"], sql)
                    elif inner["k"] == "ref":
                        cands = instances_of(inner["c"])
                        val = draw(st.sampled_from(cands)) if cands else None
                    elif inner["k"] == "alt":
                        val = new_vec()
                    elif inner["k"] == "lab":
                        val = new_lab()
                    elif inner["k"] == "trk":
                        val = new_trk()
                    elif inner["k"] == "custom":
                        val = draw(st.integers(-5, 500))
                    else:
                        val = None
            elif k == "ref":
                cands = instances_of(t["c"])
                val = draw(st.sampled_from(cands)) if cands else None
            elif k in ("list", "set"):
                inner = t["of"]
                if inner["k"] in MI.PY:
                    val = [_scalar_value(draw, inner["k"], sql) for _ in range(draw(st.integers(0, 3)))]
                elif inner["k"] == "ref":
                    cands = instances_of(inner["c"])
                    val = draw(st.lists(st.sampled_from(cands), max_size=4, unique=(k == "set"))) if cands else []
                elif inner["k"] == "alt":
                    val = [new_vec() for _ in range(draw(st.integers(0, 3)))]
                elif inner["k"] == "lab":
                    val = [new_lab() for _ in range(draw(st.integers(0, 3)))]
                elif inner["k"] == "trk":
                    val = [new_trk() for _ in range(draw(st.integers(0, 4)))]
                else:
                    val = []
            elif k == "alt":
                val = new_vec()
            elif k == "lab":
                val = new_lab()
            elif k == "trk":
                val = new_trk()
            elif k == "custom":
                val = draw(st.integers(-5, 500))
            else:
                val = None
            nodes[i]["v"][name] = val
    for nd in nodes:
        if nd["c"] == "Title":
            cands = instances_of(0)
            nd["v"]["owner"] = draw(st.sampled_from(cands)) if cands and draw(st.booleans()) else None
    n_roots = draw(st.integers(1, min(3, n)))
    roots = draw(st.lists(st.integers(0, n - 1), min_size=n_roots, max_size=n_roots, unique=True))
    return {"nodes": nodes, "roots": roots}


# ----------------------------------------------------------------------------- construction
def decode_scalar(k, v, mod):
    if v is None:
        return None
    if k == "float":
        return float.fromhex(v)
    if k == "datetime":
        return datetime.datetime.fromisoformat(v)
    if k == "enum":
        return mod.Color[v]
    if k == "uuid":
        import uuid

        return uuid.UUID(v)
    return v


def build_graph(model, graph, mod, clss):
    """objects are created with their defaults first; every field is assigned afterwards (cycles for free)"""
    objs = []
    for nd in graph["nodes"]:
        if nd["c"] == "Vec":
            objs.append(mod.Vec(float.fromhex(nd["v"]["x"]), float.fromhex(nd["v"]["y"])))
        elif nd["c"] in ("Label", "Title"):
            objs.append(getattr(mod, nd["c"])(**{k: v for k, v in nd["v"].items() if k != "owner"}))
        elif nd["c"] == "Track":
            objs.append(mod.Track(nd["v"]["key"], [(float.fromhex(x), float.fromhex(y)) for x, y in nd["v"]["points"]]))
        else:
            objs.append(clss[nd["c"]]())
    for obj, nd in zip(objs, graph["nodes"]):
        if nd["c"] == "Title" and nd["v"].get("owner") is not None:
            obj.owner = objs[nd["v"]["owner"]]
        if nd["c"] in EXTRA_NODES:
            continue
        for f in MI.all_fields(model, nd["c"]):
            name, t = f["name"], f["t"]
            v = nd["v"].get(name)
            k = t["k"]
            if k in MI.PY:
                val = decode_scalar(k, v, mod)
            elif k == "opt":
                ik = t["of"]["k"]
                if v is None:
                    val = None
                elif ik in MI.PY:
                    val = decode_scalar(ik, v, mod)
                elif ik in ("ref",) + EXTRA_REFS:
                    val = objs[v]
                elif ik == "custom":
                    val = mod.Money(v)
            elif k in ("ref",) + EXTRA_REFS:
                val = None if v is None else objs[v]
            elif k == "custom":
                val = None if v is None else mod.Money(v)
            elif k in ("list", "set"):
                ik = t["of"]["k"]
                items = [decode_scalar(ik, x, mod) if ik in MI.PY else objs[x] for x in (v or [])]
                val = items if k == "list" else set(items)
            else:
                val = None
            setattr(obj, name, val)
    return objs


# ----------------------------------------------------------------------------- comparison
class Mismatch(Exception):
    def __init__(self, kind, msg):
        super().__init__(msg)
        self.kind = kind


def same_scalar(a, b, path, exact_types=True):
    if a is None or b is None:
        if a is not b:
            raise Mismatch("value_changed", f"{path}: {a!r} became {b!r}")
        return
    if exact_types and type(a) is not type(b):
        raise Mismatch("scalar_type_changed", f"{path}: {type(a).__name__} {a!r} became {type(b).__name__} {b!r}")
    if isinstance(a, float) and isinstance(b, float):
        if a != b or math.copysign(1, a) != math.copysign(1, b):
            raise Mismatch("value_changed", f"{path}: {a!r} became {b!r}")
        return
    if a != b:
        raise Mismatch("value_changed", f"{path}: {a!r} became {b!r}")


def isomorphic(model, mod, roots_a, roots_b, ordered_collections=True, exact_scalar_types=True):
    """simultaneous traversal keeping a bijection original id -> result id; raises Mismatch"""
    fwd: Dict[int, Any] = {}
    bwd: Dict[int, Any] = {}
    names = [c["name"] for c in model["classes"]]
    stack = []

    def pair(a, b, path):
        if a is None or b is None:
            if a is not b:
                raise Mismatch("reference_lost_or_invented", f"{path}: {a!r} became {b!r}")
            return
        if id(a) in fwd:
            if fwd[id(a)] is not b:
                raise Mismatch("aliasing_lost", f"{path}: an object referenced from several places became distinct objects")
            return
        if id(b) in bwd:
            raise Mismatch("distinct_objects_merged", f"{path}: two distinct objects became one")
        if type(a) is not type(b):
            raise Mismatch("wrong_class", f"{path}: {type(a).__name__} became {type(b).__name__}")
        fwd[id(a)] = b
        bwd[id(b)] = a
        stack.append((a, b, path))

    for i, (a, b) in enumerate(zip(roots_a, roots_b)):
        pair(a, b, f"root{i}")
    while stack:
        a, b, path = stack.pop()
        if type(a).__name__ == "Vec":
            same_scalar(a.x, b.x, path + ".x")
            same_scalar(a.y, b.y, path + ".y")
            continue
        if type(a).__name__ in ("Label", "Title"):
            for attr in ("text", "code") + (("size",) if type(a).__name__ == "Title" else ()):
                same_scalar(getattr(a, attr), getattr(b, attr, "<missing>"), f"{path}.{attr}")
            if type(a).__name__ == "Title":
                pair(a.owner, getattr(b, "owner", None), path + ".owner")
            continue
        if type(a).__name__ == "Track":
            same_scalar(a.key, b.key, path + ".key")
            if [tuple(p) for p in a.points] != [tuple(p) for p in b.points]:
                raise Mismatch("value_changed", f"{path}.points: {a.points!r} became {b.points!r}")
            continue
        ci = names.index(type(a).__name__)
        for f in MI.all_fields(model, ci):
            name, t = f["name"], f["t"]
            if name.startswith("_"):
                continue
            va, vb = getattr(a, name), getattr(b, name, "<missing>")
            p = f"{path}.{name}"
            k = t["k"]
            inner = t["of"]["k"] if k in ("opt", "list", "set") else None
            if k in MI.PY or (k == "opt" and inner in MI.PY):
                same_scalar(va, vb, p, exact_scalar_types)
            elif k == "custom" or (k == "opt" and inner == "custom"):
                if (va is None) != (vb is None) or (va is not None and (type(vb).__name__ != "Money" or va.cents != vb.cents)):
                    raise Mismatch("custom_typed_value_changed", f"{p}: {getattr(va, 'cents', va)!r} became {getattr(vb, 'cents', vb)!r}")
            elif k in ("ref",) + EXTRA_REFS or (k == "opt" and inner in ("ref",) + EXTRA_REFS):
                pair(va, vb, p)
            elif k in ("list", "set"):
                if vb is None or isinstance(vb, str) or not hasattr(vb, "__iter__"):
                    raise Mismatch("collection_lost", f"{p}: {va!r} became {vb!r}")
                if k == "list" and not isinstance(vb, list):
                    raise Mismatch("collection_kind_changed", f"{p}: list became {type(vb).__name__}")
                if k == "set" and not isinstance(vb, (set, frozenset)) and ordered_collections:
                    raise Mismatch("collection_kind_changed", f"{p}: set became {type(vb).__name__}")
                la, lb = list(va), list(vb)
                if inner in MI.PY:
                    if k == "list":
                        if len(la) != len(lb):
                            raise Mismatch("collection_size_changed", f"{p}: {la!r} became {lb!r}")
                        for j, (x, y) in enumerate(zip(la, lb)):
                            same_scalar(x, y, f"{p}[{j}]", exact_scalar_types)
                    continue
                if k == "list" and ordered_collections:
                    if len(la) != len(lb):
                        raise Mismatch("collection_size_changed", f"{p}: {len(la)} elements became {len(lb)}")
                    for j, (x, y) in enumerate(zip(la, lb)):
                        pair(x, y, f"{p}[{j}]")
                else:
                    # compared as sets of identity classes; elements are matched through their unique uid
                    ka = {key_of(x): x for x in la}
                    kb = {key_of(y): y for y in lb}
                    if len(ka) != len({id(x) for x in la}) or len(kb) != len({id(y) for y in lb}):
                        raise Mismatch("harness", f"{p}: elements without unique keys")
                    if set(ka) != set(kb):
                        raise Mismatch("collection_elements_changed", f"{p}: keys {sorted(map(str, ka))} became {sorted(map(str, kb))}")
                    for key in ka:
                        pair(ka[key], kb[key], f"{p}{{{key}}}")
    return len(fwd)


def key_of(x):
    if type(x).__name__ == "Vec":
        return ("Vec", x.x, x.y)
    if type(x).__name__ in ("Label", "Title"):
        return ("Label", x.code)
    if type(x).__name__ == "Track":
        return ("Track", x.key)
    return (type(x).__name__, getattr(x, "uid", None))


def reachable(model, roots):
    """all model objects reachable from the roots through public fields"""
    names = [c["name"] for c in model["classes"]]
    seen, stack = {}, list(roots)
    while stack:
        o = stack.pop()
        if o is None or id(o) in seen:
            continue
        seen[id(o)] = o
        if type(o).__name__ == "Title":
            stack.append(o.owner)
        if type(o).__name__ in EXTRA_NODES:
            continue
        ci = names.index(type(o).__name__)
        for f in MI.all_fields(model, ci):
            if f["name"].startswith("_"):
                continue
            e = MI.endpoint(f["t"])
            if e["k"] not in ("ref",) + EXTRA_REFS:
                continue
            v = getattr(o, f["name"])
            if v is None:
                continue
            stack.extend(list(v) if f["t"]["k"] in ("list", "set") else [v])
    return list(seen.values())


def graph_stats(model, graph):
    indeg = [0] * len(graph["nodes"])
    for nd in graph["nodes"]:
        if nd["c"] == "Title" and nd["v"].get("owner") is not None:
            indeg[nd["v"]["owner"]] += 1
        if nd["c"] in EXTRA_NODES:
            continue
        for f in MI.all_fields(model, nd["c"]):
            if f["name"].startswith("_"):
                continue
            e = MI.endpoint(f["t"])
            if e["k"] not in ("ref",) + EXTRA_REFS:
                continue
            v = nd["v"].get(f["name"])
            if v is None:
                continue
            for j in (v if isinstance(v, list) else [v]):
                indeg[j] += 1
    shared_title = sum(1 for d, nd in zip(indeg, graph["nodes"]) if d >= 2 and nd["c"] == "Title")
    return dict(shared=sum(1 for d in indeg if d >= 2), nodes=len(indeg), shared_title=shared_title)

"""Render a query IR as EQL-like text (for humans reading replay files)."""


def term(t):
    if "share" in t:
        return f"T{t['share']}<{term({k: v for k, v in t.items() if k != 'share'})}>"
    k = t["t"]
    if k == "symcall":
        return f"{t['name']}({term(t['of'])})"
    if k == "var":
        return f"v{t['i']}"
    if k == "dvar":
        return f"d{t['i']}"
    if k == "lit":
        return repr(t["v"])
    if k == "obj":
        return f"o{t['i']}"
    if k == "objs":
        return "[" + ",".join(f"o{i}" for i in t["v"]) + "]"
    if k == "val":
        return f"Val({t['v']})"
    if k == "attr":
        return f"{term(t['of'])}.{t['name']}"
    if k == "index":
        return f"{term(t['of'])}[{t['key']!r}]"
    if k == "call":
        return f"{term(t['of'])}.{t['name']}({','.join(list(map(repr, t['args'])) + [f'{k}={v!r}' for k, v in t.get('kwargs', {}).items()])})"
    return str(t)


def cond(c):
    if "share" in c:
        return f"A{c['share']}<{cond({k: v for k, v in c.items() if k != 'share'})}>"
    k = c["c"]
    if k == "shared":
        return f"S{c['i']}<{cond(c['ref'])}>"
    if k == "cmp":
        return f"{term(c['l'])} {c['op']} {term(c['r'])}"
    if k == "in":
        return f"in_({term(c['item'])}, {term(c['cont'])})"
    if k == "bool":
        return term(c["x"])
    if k in ("and", "or"):
        return f"{k}_(" + ", ".join(cond(x) for x in c["xs"]) + ")"
    if k == "not":
        return f"not_({cond(c['x'])})"
    if k == "hastype":
        return f"HasType({term(c['x'])}, {c['type']})"
    if k == "pred":
        return f"{c['name']}(" + ", ".join(term(a) for a in c["args"]) + ")"
    if k == "symfn":
        return f"{c['name']}(" + ", ".join(f"{n}={term(a)}" for n, a in c["kw"].items()) + ")"
    if k in ("exists", "forall"):
        return f"{k}({term(c['v'])}, {cond(c['x'])})"
    return str(c)


def query(ir):
    lines = []
    for i, o in enumerate(ir["world"]["objs"]):
        lines.append(f"o{i} = {o['cls']}(a={o['a']}, b={o['b']}, name={o['name']!r}, tags={o['tags']}, kids={['o%d' % k for k in o['kids']]}, "
                     f"friend={'None' if o['friend'] is None else 'o%d' % o['friend']}, props={o['props']}, val={o['val']})")
    for i, v in enumerate(ir["vars"]):
        dom = repr(v["dom"]) if v.get("plain") else "[" + ",".join("noise" if j < 0 else f"o{j}" for j in v["dom"]) + "]"
        s = f"v{i} = let({v['type']}, {'gen' if v.get('gen') else ''}{dom})"
        if v.get("sub"):
            s += f"  ->  v{i} = {v['sub']['quant']}(entity(v{i}, {cond(v['sub']['cond'])}))"
        if v.get("local"):
            s += "   # local to a quantifier"
        lines.append(s)
    for i, dv in enumerate(ir["dvars"]):
        lines.append(f"d{i} = flatten({term(dv['of'])})")
    sel = ", ".join(term(t) for t in ir["sel"]["terms"])
    conds = ", ".join(cond(c) for c in ir["conds"])
    if ir["sel"]["kind"] == "entity":
        lines.append(f"{ir.get('quant','an')}(entity({sel}{', ' if conds else ''}{conds}))")
    else:
        lines.append(f"{ir.get('quant','an')}(set_of([{sel}]{', ' if conds else ''}{conds}))")
    return "\n".join(lines)

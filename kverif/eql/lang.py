"""Query IR: world construction, interpretation into krrood objects, and the brute-force oracle.

IR (all JSON):
  world: {"objs":[{"cls","a","b","name","tags","kids","friend","props","val"}...]}
  vars:  [{"type":"Item"|"SpecialItem","dom":[obj index | -1 (an `Other` noise object)], "gen":bool,
           "local":bool, "sub":None|{"quant":"an"|"the","cond":Cond}}]
  dvars: [{"of":Term,"local":bool}]                  flatten(...) nodes, shared by all their occurrences
  cond:  Cond | None ; conds at top level are given as a list "conds" (implicit and_)
  sel:   {"kind":"entity"|"set_of","terms":[Term...]}
  quant: "an"|"the"
Term: {"t":"var","i"} {"t":"dvar","i"} {"t":"attr","of","name"} {"t":"index","of","key"}
      {"t":"call","of","name","args"} {"t":"lit","v"} {"t":"obj","i"} {"t":"objs","v":[i..]} {"t":"val","v"}
Cond: {"c":"cmp","op","l","r"} {"c":"in","item","cont"} {"c":"bool","x":Term}
      {"c":"and"|"or","xs":[...]} {"c":"not","x"} {"c":"exists"|"forall","v":Term,"x":Cond,"locals":[["var"|"dvar",i]...]}
      {"c":"hastype","x":Term,"type"} {"c":"pred","name","args":[Term..]} {"c":"symfn","name","kw":{name:Term}}
"""
from __future__ import annotations

import itertools
import operator
from collections import Counter
from typing import Any, Dict, List, Tuple

PURE_HOOKS = dict(
    pred=lambda name, args: args[0] > args[1],  # Bigger(p, q)
    symfn=lambda name, kw: kw["p"] <= kw["q"],  # sf_le(p, q)
)

OPS = {"==": operator.eq, "!=": operator.ne, "<": operator.lt, "<=": operator.le, ">": operator.gt, ">=": operator.ge}


# ----------------------------------------------------------------------------- world
def build_world(world, item_classes=None):
    from ..models import eql_world as W

    classes = item_classes or {"Item": W.Item, "SpecialItem": W.SpecialItem}
    objs = []
    for i, o in enumerate(world["objs"]):
        cls = classes[o["cls"]]
        obj = cls(a=o["a"], b=o["b"], name=o["name"], tags=list(o["tags"]), props=dict(o["props"]),
                  val=None if o["val"] is None else W.Val(o["val"]))
        obj._label = i
        objs.append(obj)
    for obj, o in zip(objs, world["objs"]):
        obj.kids = [objs[k] for k in o["kids"]]
        obj.friend = None if o["friend"] is None else objs[o["friend"]]
    return objs


def type_of(name, item_classes=None):
    from ..models import eql_world as W

    return (item_classes or {"Item": W.Item, "SpecialItem": W.SpecialItem})[name]


# ----------------------------------------------------------------------------- structure helpers
def term_refs(t, acc=None):
    """variable references (("var",i)/("dvar",i)) occurring in a term"""
    acc = acc if acc is not None else set()
    k = t["t"]
    if k in ("var", "dvar"):
        acc.add((k, t["i"]))
    elif k in ("attr", "index", "call", "symcall"):
        term_refs(t["of"], acc)
        for a in t.get("args", []):
            if isinstance(a, dict) and "t" in a:
                term_refs(a, acc)
    return acc


def cond_terms(c):
    k = c["c"]
    if k == "cmp":
        return [c["l"], c["r"]]
    if k == "in":
        return [c["item"], c["cont"]]
    if k in ("bool", "hastype"):
        return [c["x"]]
    if k == "pred":
        return list(c["args"])
    if k == "symfn":
        return list(c["kw"].values())
    return []


SHARED = {}  # set by multi-query checks: list of shared condition IRs for the IR being processed


def cond_refs(c, acc=None):
    acc = acc if acc is not None else set()
    if c["c"] == "shared":
        return cond_refs(c["ref"], acc)
    for t in cond_terms(c):
        term_refs(t, acc)
    k = c["c"]
    if k in ("and", "or"):
        for x in c["xs"]:
            cond_refs(x, acc)
    elif k == "not":
        cond_refs(c["x"], acc)
    elif k in ("exists", "forall"):
        term_refs(c["v"], acc)
        cond_refs(c["x"], acc)
    return acc


def close_refs(ir, refs):
    """add the variables a dvar's source depends on"""
    refs = set(refs)
    changed = True
    while changed:
        changed = False
        for kind, i in list(refs):
            if kind == "dvar":
                for r in term_refs(ir["dvars"][i]["of"]):
                    if r not in refs:
                        refs.add(r)
                        changed = True
    return refs


def query_refs(ir):
    refs = set()
    for c in ir["conds"]:
        cond_refs(c, refs)
    for t in ir["sel"]["terms"]:
        term_refs(t, refs)
    return close_refs(ir, refs)


def walk_conds(c):
    yield c
    k = c["c"]
    if k == "shared":
        yield from walk_conds(c["ref"])
        return
    if k in ("and", "or"):
        for x in c["xs"]:
            yield from walk_conds(x)
    elif k in ("not", "exists", "forall"):
        yield from walk_conds(c["x"])


# ----------------------------------------------------------------------------- oracle
class Oracle:
    """Brute-force first-order evaluation; never touches krrood."""

    def __init__(self, ir, objs, item_classes=None, hooks=None):
        self.ir = ir
        self.objs = objs
        self.classes = item_classes
        self.hooks = hooks or PURE_HOOKS
        from ..models import eql_world as W

        self.W = W
        self.var_domains = [self._var_domain(i) for i in range(len(ir["vars"]))]

    def _raw_domain(self, v):
        if v.get("plain"):
            T = {"int": int, "str": str}[v["type"]]
            return [x for x in v["dom"] if type(x) is T]
        T = type_of(v["type"], self.classes)
        return [self.objs[j] for j in v["dom"] if j >= 0 and isinstance(self.objs[j], T)]

    def _var_domain(self, i):
        v = self.ir["vars"][i]
        dom = self._raw_domain(v)
        if v.get("sub"):
            dom = [o for o in dom if self.holds(v["sub"]["cond"], {("var", i): o})]
        return dom

    # terms
    def term(self, t, s):
        k = t["t"]
        if k in ("var", "dvar"):
            return s[(k, t["i"])]
        if k == "lit":
            return t["v"]
        if k == "obj":
            return self.objs[t["i"]]
        if k == "objs":
            return [self.objs[i] for i in t["v"]]
        if k == "val":
            return self.W.Val(t["v"])
        if k == "attr":
            return getattr(self.term(t["of"], s), t["name"])
        if k == "index":
            return self.term(t["of"], s)[t["key"]]
        if k == "call":
            return getattr(self.term(t["of"], s), t["name"])(*t["args"], **t.get("kwargs", {}))
        if k == "symcall":
            return self.term(t["of"], s) // 2  # sf_half(n): falsy for 0 and 1
        raise ValueError(k)

    def locals_assignments(self, locals_, s):
        """all extensions of s over the local variables (base vars first, then dvars in index order)"""
        locs = sorted(locals_, key=lambda r: (0 if r[0] == "var" else 1, r[1]))

        def rec(idx, cur):
            if idx == len(locs):
                yield cur
                return
            kind, i = locs[idx]
            if kind == "var":
                dom = self.var_domains[i]
            else:
                dom = list(self.term(self.ir["dvars"][i]["of"], cur))
            for o in dom:
                nxt = dict(cur)
                nxt[(kind, i)] = o
                yield from rec(idx + 1, nxt)

        yield from rec(0, dict(s))

    def holds(self, c, s) -> bool:
        k = c["c"]
        if k == "shared":
            return self.holds(c["ref"], s)
        if k == "cmp":
            return bool(OPS[c["op"]](self.term(c["l"], s), self.term(c["r"], s)))
        if k == "in":
            return self.term(c["item"], s) in self.term(c["cont"], s)
        if k == "bool":
            return bool(self.term(c["x"], s))
        if k == "and":
            return all(self.holds(x, s) for x in c["xs"])
        if k == "or":
            return any(self.holds(x, s) for x in c["xs"])
        if k == "not":
            return not self.holds(c["x"], s)
        if k == "hastype":
            return isinstance(self.term(c["x"], s), type_of(c["type"], self.classes))
        if k == "pred":
            return bool(self.hooks["pred"](c["name"], [self.term(a, s) for a in c["args"]]))
        if k == "symfn":
            return bool(self.hooks["symfn"](c["name"], {n: self.term(a, s) for n, a in c["kw"].items()}))
        if k == "exists":
            locs = [tuple(x) for x in c["locals"]]
            return any(self.holds(c["x"], s2) for s2 in self.locals_assignments(locs, s))
        if k == "forall":
            locs = [tuple(x) for x in c["locals"]]
            return all(self.holds(c["x"], s2) for s2 in self.locals_assignments(locs, s))
        raise ValueError(k)

    def global_refs(self):
        refs = query_refs(self.ir)
        local = set()
        for c in self.ir["conds"]:
            for n in walk_conds(c):
                if n["c"] in ("exists", "forall"):
                    local.update(tuple(x) for x in n["locals"])
        return refs - local

    def assignments(self):
        yield from self.locals_assignments(self.global_refs(), {})

    def norm(self, v):
        if isinstance(v, (self.W.Item, self.W.Other)):
            return ("obj", getattr(v, "_label", id(v)))
        if isinstance(v, list):
            return ("list", tuple(self.norm(x) for x in v))
        if isinstance(v, dict):
            return ("dict", tuple(sorted((k, self.norm(x)) for k, x in v.items())))
        return (type(v).__name__, repr(v))

    def answer(self):
        """returns (Counter of rows, number of assignments, number of satisfying assignments)"""
        rows = Counter()
        total = sat = 0
        for s in self.assignments():
            total += 1
            if all(self.holds(c, s) for c in self.ir["conds"]):
                sat += 1
                rows[tuple(self.norm(self.term(t, s)) for t in self.ir["sel"]["terms"])] += 1
        return rows, total, sat


# ----------------------------------------------------------------------------- krrood interpretation
class Builder:
    """Builds the krrood query the way a user would write it."""

    def __init__(self, ir, objs, item_classes=None, hooks=None, domain_factory=None):
        self.ir, self.objs, self.classes = ir, objs, item_classes
        self.hooks = hooks or {}
        self.domain_factory = domain_factory
        self.var_nodes: Dict[int, Any] = {}
        self.dvar_nodes: Dict[int, Any] = {}
        self.shared_nodes: Dict[int, Any] = {}
        from ..models import eql_world as W

        self.W = W
        self.noise = W.Other(a=1)

    def domain_values(self, v):
        if v.get("plain"):
            return list(v["dom"])
        return [self.noise if j < 0 else self.objs[j] for j in v["dom"]]

    def var(self, i):
        if i not in self.var_nodes:
            from krrood.entity_query_language.entity import entity, let
            from krrood.entity_query_language.quantify_entity import an, the

            v = self.ir["vars"][i]
            values = self.domain_values(v)
            if self.domain_factory is not None:
                dom = self.domain_factory(i, values)
            elif v.get("gen"):
                dom = (x for x in values)
            else:
                dom = values
            vtype = {"int": int, "str": str}[v["type"]] if v.get("plain") else type_of(v["type"], self.classes)
            node = let(vtype, dom, name=f"v{i}")
            if v.get("sub"):
                self.var_nodes[i] = node  # while building the sub-query's own condition
                cond = self.cond(v["sub"]["cond"])
                q = {"an": an, "the": the}[v["sub"]["quant"]]
                node = q(entity(node, cond))
            self.var_nodes[i] = node
        return self.var_nodes[i]

    def dvar(self, i):
        if i not in self.dvar_nodes:
            from krrood.entity_query_language.entity import flatten

            self.dvar_nodes[i] = flatten(self.term(self.ir["dvars"][i]["of"]))
        return self.dvar_nodes[i]

    def term(self, t):
        # a term (or an atom, see cond) that carries a "share" index is built once per query: its occurrences are
        # one krrood expression object, as in `f = x.a; or_(f, f == 0)`
        if "share" in t:
            key = ("term", t["share"])
            if key not in self.shared_nodes:
                self.shared_nodes[key] = self._term(t)
            return self.shared_nodes[key]
        return self._term(t)

    def _term(self, t):
        k = t["t"]
        if k == "symcall":
            return self.hooks["build_symterm"](t["name"], self.term(t["of"]))
        if k == "var":
            return self.var(t["i"])
        if k == "dvar":
            return self.dvar(t["i"])
        if k == "lit":
            return t["v"]
        if k == "obj":
            return self.objs[t["i"]]
        if k == "objs":
            return [self.objs[i] for i in t["v"]]
        if k == "val":
            return self.W.Val(t["v"])
        if k == "attr":
            return getattr(self.term(t["of"]), t["name"])
        if k == "index":
            return self.term(t["of"])[t["key"]]
        if k == "call":
            return getattr(self.term(t["of"]), t["name"])(*t["args"], **t.get("kwargs", {}))
        raise ValueError(k)

    def cond(self, c):
        from krrood.entity_query_language import entity as E
        from krrood.entity_query_language.predicate import HasType

        if "share" in c:
            key = ("cond", c["share"])
            if key not in self.shared_nodes:
                self.shared_nodes[key] = self._cond(c)
            return self.shared_nodes[key]
        return self._cond(c)

    def _cond(self, c):
        from krrood.entity_query_language import entity as E
        from krrood.entity_query_language.predicate import HasType

        k = c["c"]
        if k == "shared":
            # one condition object used by several queries
            if c["i"] not in self.shared_nodes:
                self.shared_nodes[c["i"]] = self.cond(c["ref"])
            return self.shared_nodes[c["i"]]
        if k == "cmp":
            l, r = self.term(c["l"]), self.term(c["r"])
            return OPS[c["op"]](l, r)
        if k == "in":
            if c.get("form") == "contains":
                return E.contains(self.term(c["cont"]), self.term(c["item"]))
            return E.in_(self.term(c["item"]), self.term(c["cont"]))
        if k == "bool":
            return self.term(c["x"])
        if k == "and":
            return E.and_(*[self.cond(x) for x in c["xs"]])
        if k == "or":
            return E.or_(*[self.cond(x) for x in c["xs"]])
        if k == "not":
            return E.not_(self.cond(c["x"]))
        if k == "hastype":
            return HasType(self.term(c["x"]), type_of(c["type"], self.classes))
        if k == "pred":
            return self.hooks["build_pred"](c["name"], [self.term(a) for a in c["args"]])
        if k == "symfn":
            return self.hooks["build_symfn"](c["name"], {n: self.term(a) for n, a in c["kw"].items()})
        if k == "exists":
            return E.exists(self.term(c["v"]), self.cond(c["x"]))
        if k == "forall":
            return E.for_all(self.term(c["v"]), self.cond(c["x"]))
        raise ValueError(k)

    def query(self):
        from krrood.entity_query_language.entity import entity, set_of
        from krrood.entity_query_language.quantify_entity import an, the

        # variables are declared first, in index order, like a user would do
        for r in sorted(query_refs(self.ir)):
            if r[0] == "var":
                self.var(r[1])
        self.sel_nodes = [self.term(t) for t in self.ir["sel"]["terms"]]
        conds = [self.cond(c) for c in self.ir["conds"]]
        if self.ir["sel"]["kind"] == "entity":
            desc = entity(self.sel_nodes[0], *conds)
        else:
            desc = set_of(self.sel_nodes, *conds)
        self.desc = desc
        q = the if self.ir.get("quant") == "the" else an
        if self.ir.get("constraint") and q is an:
            # a result count constraint that every answer set satisfies: ["atleast", 0] | ["atmost", big]
            from krrood.entity_query_language.result_quantification_constraint import AtLeast, AtMost

            kind, k = self.ir["constraint"]
            self.q = an(desc, quantification=AtLeast(k) if kind == "atleast" else AtMost(k))
        else:
            self.q = q(desc)
        return self.q

    def row(self, result, norm):
        if self.ir["sel"]["kind"] == "entity":
            return (norm(result),)
        return tuple(norm(result[n]) for n in self.sel_nodes)

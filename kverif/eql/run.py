"""Shared execution of a query IR against krrood + oracle (used by C01, C02, C03, C10)."""
from __future__ import annotations

from collections import Counter
from typing import Any, Dict, Optional, Tuple

from . import lang


def make_hooks():
    """Harness predicate + symbolic function, defined against the krrood under test."""
    from dataclasses import dataclass

    from krrood.entity_query_language.predicate import Predicate, symbolic_function

    @dataclass(eq=False)
    class Bigger(Predicate):
        p: int
        q: int

        def __call__(self):
            return self.p > self.q

    @symbolic_function
    def sf_le(p, q):
        return p <= q

    @symbolic_function
    def sf_half(n):
        return n // 2

    preds = {"Bigger": Bigger}
    fns = {"sf_le": sf_le}
    return dict(
        pred=lambda name, args: args[0] > args[1],
        symfn=lambda name, kw: kw["p"] <= kw["q"],
        build_pred=lambda name, args: preds[name](*args),
        build_symfn=lambda name, kw: fns[name](**kw),
        build_symterm=lambda name, arg: sf_half(arg),
    )


_HOOKS = None


def hooks():
    global _HOOKS
    if _HOOKS is None:
        _HOOKS = make_hooks()
    return _HOOKS


def the_subqueries_ok(ir, oracle: lang.Oracle) -> bool:
    for i, v in enumerate(ir["vars"]):
        if v.get("sub") and v["sub"]["quant"] == "the" and len(oracle.var_domains[i]) != 1:
            return False
    return True


def evaluate(ir, objs=None) -> Tuple[Counter, Any]:
    """Returns (Counter of normalised rows produced by krrood, builder)."""
    objs = objs if objs is not None else lang.build_world(ir["world"])
    b = lang.Builder(ir, objs, hooks=hooks())
    q = b.query()
    norm = lang.Oracle(ir, objs, hooks=hooks()).norm
    rows = Counter()
    for r in q.evaluate():
        rows[b.row(r, norm)] += 1
    return rows, b

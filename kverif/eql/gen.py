"""Hypothesis strategies for query IRs (see lang.py for the IR)."""
from __future__ import annotations

import copy
from dataclasses import dataclass, field
from typing import List, Optional

from hypothesis import strategies as st

NAMES = ["", "n", "n1", "m", "nm"]
CMP_OPS = ["==", "!=", "<", "<=", ">", ">=", "!=", "<=", ">="]


@dataclass
class Cfg:
    max_vars: int = 3
    max_dom: int = 4
    max_objs: int = 6
    depth: int = 3
    fragment: str = "c01"  # "c01" full vocabulary, "c02" conjunctive/else-if fragment
    allow_empty_domain: bool = True
    allow_union_or: bool = True  # or_ over different variable sets
    allow_not_compound: bool = True  # not_ over and_/or_
    allow_quantifiers: bool = True
    allow_subquery: bool = True
    allow_flatten: bool = True
    allow_predicates: bool = True
    allow_derived_selection: bool = True
    allow_generators: bool = True
    allow_noise: bool = True
    allow_partial_ops: bool = True
    force_plain_var_selection: bool = False
    forall_truthy_literals: bool = False
    forall_no_predicates: bool = False
    allow_quantifier_under_compound_negation: bool = True
    allow_quantifier_in_or: bool = True
    allow_negated_union: bool = True
    allow_union_in_forall: bool = True
    allow_shared_below_compound_negation: bool = True
    allow_forall_outer_flatten: bool = True
    allow_predicates_in_or: bool = True
    unique_domains: bool = False
    allow_plain_variables: bool = True
    allow_symcall_terms: bool = True   # sf_half(n): a symbolic function whose (possibly falsy) output is an operand
    allow_shared_nodes: bool = True    # one atom / term object occurring several times in a query
    flatten_nonempty: bool = False
    allow_subquery_bool_root: bool = True
    min_dom: int = 0


class _Ctx:
    def __init__(self, draw, cfg: Cfg):
        self.draw, self.cfg = draw, cfg
        self.vars: List[dict] = []
        self.dvars: List[dict] = []
        self.flags = {}
        self.n_objs = 0
        self.plain_int = []  # indexes of variables over plain ints
        self.plain_str = []  # indexes of variables over plain strs
        self.no_pred = 0  # >0: no Predicate / symbolic function atoms (inside for_all while that finding stands)
        self.truthy_only = 0  # >0: literals are drawn truthy (inside for_all while the falsy-literal finding stands)
        self.in_symcall = False
        self.in_forall = 0  # >0 while generating the condition of a for_all
        self.below_negation = 0  # >0 while generating the operand of a not_ that may be a compound
        self.in_local_scope = 0  # >0 while generating below a quantifier: those nodes mention local variables
        self.made_atoms = []  # atoms generated so far, candidates for a second occurrence of the same object
        self.made_int_terms = []
        self.n_shared = 0

    # ---- terms -----------------------------------------------------------------------------
    def is_plain(self, r):
        return r[0] == "var" and self.vars[r[1]].get("plain")

    def items(self, scope):
        return [r for r in scope if not self.is_plain(r)]

    def item_term(self, scope, depth=1):
        d = self.draw
        base = d(st.sampled_from(self.items(scope)))
        t = {"t": base[0], "i": base[1]}
        while depth > 0:
            depth -= 1
            opts = ["stop", "stop"]
            if self.flags["friend_total"]:
                opts.append("friend")
            if self.flags["kids_nonempty"]:
                opts.append("kid0")
            o = d(st.sampled_from(opts))
            if o == "stop":
                break
            if o == "friend":
                t = {"t": "attr", "of": t, "name": "friend"}
            else:
                t = {"t": "index", "of": {"t": "attr", "of": t, "name": "kids"}, "key": 0}
        return t

    def int_term(self, scope, allow_lit=True):
        """an int-valued term; sometimes a second occurrence of a term object made earlier"""
        from .lang import term_refs

        d = self.draw
        if (self.cfg.allow_shared_nodes and self.made_int_terms and not self.no_pred and not self.truthy_only
                and (self.cfg.allow_shared_below_compound_negation or not self.below_negation) and d(st.integers(0, 7)) == 0):
            cands = [t for t in self.made_int_terms if term_refs(t) <= {tuple(r) for r in scope}]
            if cands:
                t = d(st.sampled_from(cands))
                if "share" not in t:
                    t["share"] = self.n_shared
                    self.n_shared += 1
                return copy.deepcopy(t)
        t = self._int_term(scope, allow_lit)
        if t["t"] not in ("lit", "var") and not self.in_local_scope and (
                self.cfg.allow_shared_below_compound_negation or not self.below_negation):
            self.made_int_terms.append(t)
        return t

    def _int_term(self, scope, allow_lit=True):
        d = self.draw
        if (self.cfg.allow_symcall_terms and self.cfg.allow_predicates and not self.no_pred and not self.in_symcall
                and d(st.integers(0, 5)) == 0 and (self.items(scope) or any(self.is_plain(r) and self.vars[r[1]]["type"] == "int" for r in scope))):
            self.in_symcall = True
            try:
                return {"t": "symcall", "name": "sf_half", "of": self._int_term(scope, allow_lit=False)}
            finally:
                self.in_symcall = False
        self.in_forall = 0  # >0 while generating the condition of a for_all
        self.below_negation = 0  # >0 while generating the operand of a not_ that may be a compound
        opts = ["a", "a", "b", "scaled"]
        if self.flags["tags_nonempty"]:
            opts.append("tag0")
        if self.flags["props_k"]:
            opts.append("prop")
        if allow_lit:
            opts += ["lit", "lit"]
        plain = [r[1] for r in scope if self.is_plain(r) and self.vars[r[1]]["type"] == "int"]
        if plain:
            opts += ["plain", "plain"]
        if not self.items(scope):
            opts = (["plain"] if plain else []) + (["lit"] if allow_lit or not plain else [])
        o = d(st.sampled_from(opts))
        if o == "plain":
            return {"t": "var", "i": d(st.sampled_from(plain))}
        if o == "lit":
            return {"t": "lit", "v": d(st.integers(1 if self.truthy_only else 0, 3))}
        it = self.item_term(scope)
        if o == "scaled":
            # a method call with positional and/or keyword arguments (keyword arguments only, too)
            form = d(st.sampled_from(["kw", "kw", "pos", "both", "none"]))
            args = [d(st.integers(0, 2))] if form in ("pos", "both") else []
            kwargs = {}
            if form == "kw":
                kwargs = d(st.sampled_from([{"k": 2}, {"plus": 1}, {"k": 0, "plus": 2}]))
            elif form == "both":
                kwargs = {"plus": d(st.integers(0, 2))}
            return {"t": "call", "of": it, "name": "scaled", "args": args, "kwargs": kwargs}
        if o in ("a", "b"):
            return {"t": "attr", "of": it, "name": o}
        if o == "tag0":
            return {"t": "index", "of": {"t": "attr", "of": it, "name": "tags"}, "key": 0}
        return {"t": "index", "of": {"t": "attr", "of": it, "name": "props"}, "key": "k"}

    def str_term(self, scope, allow_lit=True):
        d = self.draw
        if allow_lit and d(st.booleans()):
            return {"t": "lit", "v": d(st.sampled_from(NAMES[1:] if self.truthy_only else NAMES))}
        plain = [r[1] for r in scope if self.is_plain(r) and self.vars[r[1]]["type"] == "str"]
        if plain and (d(st.booleans()) or not self.items(scope)):
            return {"t": "var", "i": d(st.sampled_from(plain))}
        if not self.items(scope):
            return {"t": "lit", "v": d(st.sampled_from(NAMES[1:] if self.truthy_only else NAMES))}
        return {"t": "attr", "of": self.item_term(scope), "name": "name"}

    # ---- atoms -----------------------------------------------------------------------------
    def atom(self, scope):
        """an atomic condition; sometimes a second occurrence of an atom object made earlier (as in
        `c = x.a > 1; or_(and_(c, d), and_(not_(c), e))`)"""
        from .lang import cond_refs

        d = self.draw
        if (self.cfg.allow_shared_nodes and self.made_atoms and not self.no_pred and not self.truthy_only
                and (self.cfg.allow_shared_below_compound_negation or not self.below_negation) and d(st.integers(0, 6)) == 0):
            cands = [a for a in self.made_atoms if cond_refs(a) <= {tuple(r) for r in scope}]
            if cands:
                a = d(st.sampled_from(cands))
                if "share" not in a:
                    a["share"] = self.n_shared
                    self.n_shared += 1
                return copy.deepcopy(a)
        a = self._atom(scope)
        if self.cfg.allow_shared_below_compound_negation or not self.below_negation:
            self.made_atoms.append(a)
        return a

    def _atom(self, scope):
        d = self.draw
        kinds = ["cmp_int", "cmp_int", "cmp_int", "cmp_str", "ident", "in_int", "in_item", "bool_call", "substr", "truthy"]
        if self.cfg.allow_predicates and not self.no_pred:
            kinds += ["hastype", "pred", "symfn"]
        kinds += ["val_eq"] if self.truthy_only else ["friend_none", "val_eq"]
        if not self.items(scope):
            kinds = ["cmp_int", "cmp_str", "in_lit"]  # only a plain-value variable is in scope
        k = d(st.sampled_from(kinds))
        if k == "in_lit":
            r = d(st.sampled_from([x for x in scope if self.is_plain(x)]))
            kind = self.vars[r[1]]["type"]
            lits = d(st.lists(st.sampled_from([0, 1, 2, 3] if kind == "int" else NAMES), max_size=3))
            return {"c": "in", "item": {"t": "var", "i": r[1]}, "cont": {"t": "lit", "v": lits}, "form": d(st.sampled_from(["in", "contains"]))}
        if k == "cmp_int" and not self.items(scope) and not any(self.vars[x[1]]["type"] == "int" for x in scope if self.is_plain(x)):
            k = "cmp_str"
        if k == "cmp_str" and not self.items(scope) and not any(self.vars[x[1]]["type"] == "str" for x in scope if self.is_plain(x)):
            k = "cmp_int"
        if k == "truthy":
            # an int-valued expression used as a condition: true iff the value is not 0
            t = self.int_term(scope, allow_lit=False)
            if t["t"] == "var":
                # a bare variable is not a condition (it is the thing conditions are about)
                return {"c": "cmp", "op": "!=", "l": t, "r": {"t": "lit", "v": 0}}
            return {"c": "bool", "x": t}
        if k == "cmp_int":
            l = self.int_term(scope, allow_lit=False)
            r = self.int_term(scope)
            if d(st.booleans()):
                l, r = r, l
            return {"c": "cmp", "op": d(st.sampled_from(CMP_OPS)), "l": l, "r": r}
        if k == "cmp_str":
            l = self.str_term(scope, allow_lit=False)
            r = self.str_term(scope)
            return {"c": "cmp", "op": d(st.sampled_from(CMP_OPS)), "l": l, "r": r}
        if k == "ident":
            l = self.item_term(scope)
            if d(st.booleans()):
                r = self.item_term(scope)
            else:
                r = {"t": "obj", "i": d(st.integers(0, self.n_objs - 1))}
            return {"c": "cmp", "op": d(st.sampled_from(["==", "!="])), "l": l, "r": r}
        if k == "friend_none":
            l = {"t": "attr", "of": self.item_term(scope, 0), "name": "friend"}
            return {"c": "cmp", "op": d(st.sampled_from(["==", "!="])), "l": l, "r": {"t": "lit", "v": None}}
        if k == "val_eq":
            l = {"t": "attr", "of": self.item_term(scope), "name": "val"}
            if d(st.booleans()):
                r = {"t": "val", "v": d(st.integers(0, 1))}
            else:
                r = {"t": "attr", "of": self.item_term(scope), "name": "val"}
            return {"c": "cmp", "op": d(st.sampled_from(["==", "!="])), "l": l, "r": r}
        if k == "in_int":
            form = d(st.sampled_from(["in", "contains"]))
            if d(st.booleans()):
                item = self.int_term(scope, allow_lit=False)
                cont = d(st.one_of(
                    st.lists(st.integers(0, 3), min_size=1 if self.truthy_only else 0, max_size=3).map(lambda v: {"t": "lit", "v": v}),
                    st.just(None)))
                if cont is None:
                    cont = {"t": "attr", "of": self.item_term(scope), "name": "tags"}
            else:
                item = self.int_term(scope)
                cont = {"t": "attr", "of": self.item_term(scope), "name": "tags"}
            return {"c": "in", "item": item, "cont": cont, "form": form}
        if k == "in_item":
            form = d(st.sampled_from(["in", "contains"]))
            item = self.item_term(scope)
            if d(st.booleans()):
                cont = {"t": "attr", "of": self.item_term(scope), "name": "kids"}
            else:
                cont = {"t": "objs", "v": d(st.lists(st.integers(0, self.n_objs - 1), min_size=1 if self.truthy_only else 0, max_size=3))}
            return {"c": "in", "item": item, "cont": cont, "form": form}
        if k == "substr":
            return {"c": "in", "item": {"t": "lit", "v": d(st.sampled_from(["n", "1", "m"] if self.truthy_only else ["n", "1", "m", ""]))},
                    "cont": {"t": "attr", "of": self.item_term(scope), "name": "name"},
                    "form": d(st.sampled_from(["in", "contains"]))}
        if k == "bool_call":
            it = self.item_term(scope)
            if d(st.booleans()):
                return {"c": "bool", "x": {"t": "call", "of": it, "name": "big", "args": [d(st.integers(0, 3))]}}
            return {"c": "bool", "x": {"t": "call", "of": {"t": "attr", "of": it, "name": "name"},
                                       "name": "startswith", "args": [d(st.sampled_from(["n", "m", ""]))]}}
        if k == "hastype":
            x = self.item_term(scope)
            return {"c": "hastype", "x": x, "type": d(st.sampled_from(["SpecialItem", "Item"]))}
        if k == "pred":
            l = self.int_term(scope, allow_lit=False)
            r = self.int_term(scope)
            if d(st.booleans()):
                l, r = r, l
            return {"c": "pred", "name": "Bigger", "args": [l, r]}
        if k == "symfn":
            l = self.int_term(scope, allow_lit=False)
            r = self.int_term(scope)
            if d(st.booleans()):
                l, r = r, l
            return {"c": "symfn", "name": "sf_le", "kw": {"p": l, "q": r}}
        raise ValueError(k)

    # ---- conditions --------------------------------------------------------------------------
    def new_local_var(self):
        d = self.draw
        dom = d(_domain(self.cfg, self.n_objs, noise=False))
        self.vars.append({"type": "Item", "dom": dom, "gen": False, "local": True, "sub": None})
        return ("var", len(self.vars) - 1)

    def new_local_dvar(self, scope):
        of = {"t": "attr", "of": self.item_term(scope, 0), "name": "kids"}
        self.dvars.append({"of": of, "local": True})
        return ("dvar", len(self.dvars) - 1)

    def cond(self, scope, depth, neg=False, noq=False):
        d = self.draw
        cfg = self.cfg
        if depth <= 0:
            return self.atom(scope)
        kinds = ["atom", "atom", "and", "or", "not"]
        if cfg.allow_quantifiers and cfg.fragment == "c01" and not noq:
            kinds += ["exists", "forall"]
        k = d(st.sampled_from(kinds))
        if k == "atom":
            return self.atom(scope)
        if k == "or" and ((neg and not cfg.allow_negated_union) or (self.in_forall and not cfg.allow_union_in_forall)):
            # while the negated-union finding stands: under not_, both sides of or_ are written over one variable
            # and contain no predicate (or_ with a predicate operand is built as a union)
            r = d(st.sampled_from(scope))
            n = d(st.integers(2, 3))
            self.no_pred += 1
            try:
                xs = [self.cond_using([r], r, depth - 1, neg, True) for _ in range(n)]
            finally:
                self.no_pred -= 1
            return {"c": "or", "xs": xs}
        if k in ("and", "or"):
            n = d(st.integers(2, 3))
            noq2 = noq or (neg and not cfg.allow_quantifier_under_compound_negation)
            xs = [self.cond(scope, depth - 1, neg, noq2) for _ in range(n)]
            if k == "or" and not cfg.allow_quantifier_in_or and not noq2:
                # a quantifier operand is fine in a union step of the or_ chain; in an else-if step (same variables on
                # both sides) it is replaced by an atom while that finding stands
                from .features import or_chain

                fake = {"dvars": self.dvars, "vars": self.vars}
                for _ in range(len(xs)):
                    steps = or_chain(fake, {"c": "or", "xs": xs})
                    bad = [j for j, (u, q) in enumerate(steps) if (not u) and q]
                    if not bad:
                        break
                    j = bad[0]
                    victims = [m for m in range(j + 2) if _has_q(xs[m])]
                    xs[victims[-1]] = self.atom(scope)
            return {"c": k, "xs": xs}
        if k == "not":
            if cfg.fragment == "c02" or not cfg.allow_not_compound:
                return {"c": "not", "x": self.atom(scope)}
            self.below_negation += 1
            try:
                return {"c": "not", "x": self.cond(scope, depth - 1, True, noq)}
            finally:
                self.below_negation -= 1
        if k == "exists":
            if neg:
                # not_(exists(..)) is rewritten into for_all(.., not_(..)) by the engine
                self.truthy_only += int(cfg.forall_truthy_literals)
                self.no_pred += int(cfg.forall_no_predicates)
                try:
                    return self._exists(scope, depth, neg)
                finally:
                    self.truthy_only -= int(cfg.forall_truthy_literals)
                    self.no_pred -= int(cfg.forall_no_predicates)
            return self._exists(scope, depth, neg)
        if k == "forall":
            loc = self.new_local_var()
            v = {"t": loc[0], "i": loc[1]}
            if d(st.booleans()):
                v = {"t": "attr", "of": v, "name": d(st.sampled_from(["a", "b", "name"]))}
            # under not_ the engine rewrites for_all into exists (a semi-join on the quantified variable), which
            # agrees with the first-order reading only when the condition mentions no outer variable
            inner_scope = [loc] if neg else scope + [loc]
            if not cfg.allow_forall_outer_flatten:
                inner_scope = [r for r in inner_scope if r[0] == "var"]
            self.truthy_only += int(cfg.forall_truthy_literals)
            self.no_pred += int(cfg.forall_no_predicates)
            self.in_forall += 1
            try:
                inner = self.cond_using(inner_scope, loc, max(1, depth - 1), neg)
            finally:
                self.in_forall -= 1
                self.truthy_only -= int(cfg.forall_truthy_literals)
                self.no_pred -= int(cfg.forall_no_predicates)
            return {"c": "forall", "v": v, "x": inner, "locals": [list(loc)]}
        raise ValueError(k)

    def _exists(self, scope, depth, neg):
        d = self.draw
        cfg = self.cfg
        if True:
            # exists(v, c) is generated only where the docstring reading (exists v) and the documented example
            # (semi-join on v) agree: c mentions no outer variable other than v.
            form = d(st.sampled_from(["closed_var", "closed_flatten"] if neg else ["closed_var", "closed_flatten", "semi_join"]))
            if form == "closed_var" or not cfg.allow_flatten or (cfg.flatten_nonempty and not self.flags["kids_nonempty"]):
                loc = self.new_local_var()
                inner = self.cond_using([loc], loc, depth - 1, neg)
                return {"c": "exists", "v": {"t": loc[0], "i": loc[1]}, "x": inner, "locals": [list(loc)]}
            if form == "closed_flatten":
                loc = self.new_local_var()
                of = {"t": "attr", "of": {"t": loc[0], "i": loc[1]}, "name": "kids"}
                self.dvars.append({"of": of, "local": True})
                dloc = ("dvar", len(self.dvars) - 1)
                inner = self.cond_using([loc, dloc], dloc, depth - 1, neg)
                return {"c": "exists", "v": {"t": dloc[0], "i": dloc[1]}, "x": inner, "locals": [list(loc), list(dloc)]}
            # the documented semi-join form: exists(x, c(x, flatten(x.kids))) with x a plain outer variable
            # (a variable that an enclosing quantifier binds is not the subject of a semi-join)
            outers = [r for r in scope if r[0] == "var" and not self.vars[r[1]].get("sub") and not self.is_plain(r)
                      and not self.vars[r[1]].get("local")]
            if not outers:
                return self.atom(scope)
            outer = d(st.sampled_from(outers))
            of = {"t": "attr", "of": {"t": outer[0], "i": outer[1]}, "name": "kids"}
            self.dvars.append({"of": of, "local": True})
            loc = ("dvar", len(self.dvars) - 1)
            inner = self.cond_using([outer, loc], loc, 0)
            return {"c": "exists", "v": {"t": outer[0], "i": outer[1]}, "x": inner, "locals": [list(loc)]}

    # ---- the conjunctive / else-if fragment of C02 ---------------------------------------------
    def cond_c02(self, scope, depth):
        """atoms, negated atoms, and_ of fragment conditions, or_ only between operands written over the
        same variable set"""
        d = self.draw
        if depth <= 0:
            return self.atom_c02(scope)
        k = d(st.sampled_from(["atom", "atom", "and", "or", "or"]))
        if k == "atom":
            return self.atom_c02(scope)
        if k == "and":
            return {"c": "and", "xs": [self.cond_c02(scope, depth - 1) for _ in range(d(st.integers(2, 3)))]}
        n_vars = d(st.sampled_from([1, 1, 2])) if len(scope) > 1 else 1
        sub = d(st.lists(st.sampled_from(scope), min_size=n_vars, max_size=n_vars, unique=True))
        return {"c": "or", "xs": [self.cond_over_exactly(sub, depth - 1) for _ in range(d(st.integers(2, 3)))]}

    def atom_c02(self, scope):
        a = self.atom(scope)
        if self.draw(st.sampled_from([0, 0, 0, 1])):
            return {"c": "not", "x": a}
        return a

    def cond_over_exactly(self, sub, depth):
        from .lang import cond_refs

        c = self.cond_c02(sub, depth)
        missing = [r for r in sub if tuple(r) not in cond_refs(c)]
        if missing:
            c = {"c": "and", "xs": [c] + [self.atom_c02([r]) for r in missing]}
        return c

    def cond_using(self, scope, must, depth, neg=False, noq=False):
        """a condition over `scope` that mentions variable `must`"""
        from .lang import cond_refs

        c = self.cond(scope, depth, neg, noq)
        if tuple(must) in cond_refs(c):
            return c
        extra = self.atom([must])
        from .lang import walk_conds

        if neg and not self.cfg.allow_quantifier_under_compound_negation and any(
                n["c"] in ("exists", "forall") for n in walk_conds(c)):
            return extra
        return {"c": "and", "xs": [c, extra]}


def _has_q(c):
    from .lang import walk_conds

    return any(n["c"] in ("exists", "forall") for n in walk_conds(c))


def _domain(cfg: Cfg, n_objs: int, noise: bool):
    """domain = list of object indexes (-1 = wrong-typed noise object); empty domains are rare but present"""
    lo = -1 if noise else 0
    sizes = [s for s in (1, 2, 3, 3, 4, 4, 4) if cfg.min_dom <= s <= cfg.max_dom] or [cfg.max_dom]

    @st.composite
    def dom(draw):
        if cfg.allow_empty_domain and cfg.min_dom == 0 and draw(st.sampled_from(range(12))) == 0:
            return [-1] if (noise and draw(st.booleans())) else []
        n = draw(st.sampled_from(sizes))
        if not cfg.allow_empty_domain and noise and not cfg.unique_domains:
            rest = [draw(st.sampled_from(range(lo, n_objs))) if draw(st.sampled_from(range(8))) == 0
                    else draw(st.sampled_from(range(0, n_objs))) for _ in range(n - 1)]
            return [draw(st.sampled_from(range(0, n_objs)))] + rest
        if cfg.unique_domains:
            pool = list(range(n_objs)) + ([-1] if noise else [])
            return draw(st.lists(st.sampled_from(pool), min_size=min(n, len(pool)), max_size=min(n, len(pool)), unique=True))
        return [draw(st.sampled_from(range(lo, n_objs))) if noise and draw(st.sampled_from(range(8))) == 0
                else draw(st.sampled_from(range(0, n_objs))) for _ in range(n)]

    return dom()


def _world(draw, cfg: Cfg):
    n = draw(st.sampled_from([k for k in (1, 2, 3, 3, 4, 4, 5, 6) if k <= cfg.max_objs]))
    flags = {k: draw(st.booleans()) if cfg.allow_partial_ops else False
             for k in ("tags_nonempty", "kids_nonempty", "friend_total", "props_k")}
    objs = []
    for i in range(n):
        tags = draw(st.lists(st.integers(0, 3), min_size=1 if flags["tags_nonempty"] else 0, max_size=3))
        kids = draw(st.lists(st.integers(0, n - 1), min_size=1 if flags["kids_nonempty"] else 0, max_size=3))
        friend = draw(st.integers(0, n - 1)) if flags["friend_total"] else draw(st.one_of(st.none(), st.integers(0, n - 1)))
        props = {"k": draw(st.integers(0, 2))} if flags["props_k"] else draw(
            st.dictionaries(st.sampled_from(["k", "j"]), st.integers(0, 2), max_size=2))
        objs.append({
            "cls": draw(st.sampled_from(["Item", "Item", "SpecialItem"])),
            "a": draw(st.integers(0, 3)), "b": draw(st.integers(0, 2)), "name": draw(st.sampled_from(NAMES)),
            "tags": tags, "kids": kids, "friend": friend, "props": props,
            "val": draw(st.one_of(st.none(), st.integers(0, 1))),
        })
    return {"objs": objs}, flags


@st.composite
def query_ir(draw, cfg: Cfg):
    from .lang import cond_refs, query_refs

    ctx = _Ctx(draw, cfg)
    world, ctx.flags = _world(draw, cfg)
    ctx.n_objs = len(world["objs"])
    n_vars = draw(st.integers(1, cfg.max_vars))
    specials = [j for j, o in enumerate(world["objs"]) if o["cls"] == "SpecialItem"]
    for i in range(n_vars):
        dom = draw(_domain(cfg, ctx.n_objs, cfg.allow_noise))
        vtype = draw(st.sampled_from(["Item", "Item", "Item", "Item", "Item", "SpecialItem"]))
        if vtype == "SpecialItem" and not cfg.allow_empty_domain:
            # by construction: the type filter of let() must leave something in the domain
            if not specials:
                vtype = "Item"
            elif not any(j in specials for j in dom):
                dom = dom + [draw(st.sampled_from(specials))]
        ctx.vars.append({
            "type": vtype,
            "dom": dom, "gen": draw(st.booleans()) if cfg.allow_generators else False, "local": False, "sub": None,
        })
    scope = [("var", i) for i in range(n_vars)]
    if cfg.allow_plain_variables and draw(st.sampled_from([0, 0, 1])):
        kind = draw(st.sampled_from(["int", "int", "str"]))
        pool = [0, 1, 2, 3] if kind == "int" else ["", "n", "m", "n1"]
        k = draw(st.integers(1, 4))
        dom = draw(st.lists(st.sampled_from(pool), min_size=k, max_size=k, unique=True))
        ctx.vars.append({"type": kind, "dom": dom, "gen": draw(st.booleans()) if cfg.allow_generators else False,
                         "local": False, "sub": None, "plain": True})
        (ctx.plain_int if kind == "int" else ctx.plain_str).append(len(ctx.vars) - 1)
        scope.append(("var", len(ctx.vars) - 1))
    if cfg.allow_flatten and cfg.fragment == "c01" and draw(st.integers(0, 3)) == 0 and (
            ctx.flags["kids_nonempty"] or not cfg.flatten_nonempty):
        of = {"t": "attr", "of": ctx.item_term(scope, 0), "name": "kids"}
        ctx.dvars.append({"of": of, "local": False})
        scope.append(("dvar", len(ctx.dvars) - 1))
    if cfg.allow_subquery and cfg.fragment == "c01" and draw(st.integers(0, 4)) == 0:
        i = draw(st.integers(0, n_vars - 1))
        sub_cond = ctx.atom([("var", i)])
        if sub_cond["c"] == "bool" and not cfg.allow_subquery_bool_root:
            sub_cond = {"c": "and", "xs": [sub_cond, ctx.atom([("var", i)])]}
        quant = draw(st.sampled_from(["an", "an", "the"]))
        keep = True
        if not cfg.allow_empty_domain or quant == "the":
            # by construction: the sub-query must have an answer (exactly one for `the`); checked with the oracle
            from . import lang

            probe = {"world": world, "vars": [dict(v) for v in ctx.vars], "dvars": [], "conds": [], "sel": {"kind": "entity", "terms": []}}
            probe["vars"][i] = dict(probe["vars"][i], sub={"quant": quant, "cond": sub_cond})
            try:
                n_answers = len(lang.Oracle(probe, lang.build_world(world)).var_domains[i])
            except Exception:
                n_answers = 0
            keep = n_answers == 1 if quant == "the" else n_answers >= 1
            if not keep and quant == "the" and n_answers > 1:
                quant, keep = "an", True
        if keep:
            ctx.vars[i]["sub"] = {"quant": quant, "cond": sub_cond}
        # the condition of a sub-query is about the inner variable, the outer query is about its answers: expression
        # objects are not shared across that boundary
        ctx.made_atoms, ctx.made_int_terms = [], []
    n_conds = draw(st.sampled_from([0, 1, 1, 1, 1, 1, 1, 2, 2, 2, 3]))
    if cfg.fragment == "c02":
        conds = [ctx.cond_c02(scope, draw(st.integers(0, cfg.depth))) for _ in range(n_conds)]
    else:
        conds = [ctx.cond(scope, draw(st.integers(0, cfg.depth))) for _ in range(n_conds)]
    # selection
    if cfg.fragment == "c02":
        # any selection of plain variables; variables of the query = those selected or used in conditions
        pool = [{"t": k, "i": i} for (k, i) in scope]
    elif cfg.force_plain_var_selection or not cfg.allow_derived_selection:
        pool = [{"t": k, "i": i} for (k, i) in scope]
    else:
        pool = [{"t": k, "i": i} for (k, i) in scope]
        for (k, i) in ctx.items(scope):
            base = {"t": k, "i": i}
            pool.append({"t": "attr", "of": base, "name": draw(st.sampled_from(["a", "b", "name", "tags", "friend"]))})
    n_sel = draw(st.integers(1, min(3, len(pool))))
    idx = draw(st.lists(st.integers(0, len(pool) - 1), min_size=n_sel, max_size=n_sel, unique=True))
    terms = [pool[j] for j in idx]
    def is_sub(t):
        return t["t"] == "var" and ctx.vars[t["i"]].get("sub")

    if any(is_sub(t) for t in terms):
        # the documented way to select a sub-query is entity(sub_query, ...)
        terms = [t for t in terms if is_sub(t)][:1]
        kind = "entity"
    else:
        kind = "entity" if len(terms) == 1 and draw(st.booleans()) else "set_of"
    ir = {"world": world, "vars": ctx.vars, "dvars": ctx.dvars, "conds": conds,
          "sel": {"kind": kind, "terms": terms}, "quant": "an"}
    return ir


def apply_exclusions(cfg: Cfg, exclude) -> Cfg:
    """Turn features of active known findings into generator switches (exclusion by construction).
    Features without a switch are filtered (and counted) by the runner."""
    ex = set(exclude)
    if "or_union" in ex:
        cfg.allow_union_or = False
    if "not_over_union" in ex:
        cfg.allow_negated_union = False
    if "union_inside_forall" in ex:
        cfg.allow_union_in_forall = False
    if "shared_below_compound_negation" in ex:
        cfg.allow_shared_below_compound_negation = False
    if "empty_domain" in ex:
        cfg.allow_empty_domain = False
    if "sel_derived" in ex:
        cfg.allow_derived_selection = False
    if "or_with_predicate" in ex:
        cfg.allow_predicates_in_or = False
    if "forall_falsy_literal" in ex:
        cfg.forall_truthy_literals = True
    if "forall_with_predicate" in ex:
        cfg.forall_no_predicates = True
    if "quantifier_under_compound_negation" in ex:
        cfg.allow_quantifier_under_compound_negation = False
    if "forall_outer_flatten" in ex:
        cfg.allow_forall_outer_flatten = False
    if "quantifier_in_or" in ex:
        cfg.allow_quantifier_in_or = False
    if "flatten_maybe_empty" in ex:
        cfg.flatten_nonempty = True
    if "subquery_bool_root" in ex:
        cfg.allow_subquery_bool_root = False
    return cfg


@st.composite
def multi_query_ir(draw, cfg: Cfg, max_queries=3):
    """A pool: shared variables, shared condition objects, and several queries built from them."""
    ctx = _Ctx(draw, cfg)
    world, ctx.flags = _world(draw, cfg)
    ctx.n_objs = len(world["objs"])
    n_vars = draw(st.integers(1, cfg.max_vars))
    for i in range(n_vars):
        ctx.vars.append({"type": draw(st.sampled_from(["Item", "Item", "Item", "SpecialItem"])),
                         "dom": draw(_domain(cfg, ctx.n_objs, cfg.allow_noise)),
                         "gen": draw(st.booleans()) if cfg.allow_generators else False, "local": False, "sub": None})
    scope = [("var", i) for i in range(n_vars)]
    shared = [ctx.cond_c02(draw(st.lists(st.sampled_from(scope), min_size=1, max_size=2, unique=True)), draw(st.integers(0, 1)))
              for _ in range(draw(st.integers(0, 2)))]
    queries = []
    for _ in range(draw(st.integers(1, max_queries))):
        sub = draw(st.lists(st.sampled_from(scope), min_size=1, max_size=len(scope), unique=True))
        conds = [ctx.cond_c02(sub, draw(st.integers(0, cfg.depth))) for _ in range(draw(st.sampled_from([0, 1, 1, 2])))]
        for k, sc in enumerate(shared):
            if draw(st.sampled_from([0, 0, 1])):
                ref = {"c": "shared", "i": k, "ref": sc}
                conds.append({"c": "not", "x": ref} if draw(st.sampled_from([0, 0, 1])) else ref)
        from .lang import cond_refs
        refs = set(tuple(r) for r in sub)
        for c in conds:
            refs |= cond_refs(c)
        terms = [{"t": k, "i": i} for (k, i) in sorted(refs)]
        queries.append({"conds": conds, "sel": {"kind": "set_of" if len(terms) > 1 or draw(st.booleans()) else "entity", "terms": terms}})
    return {"world": world, "vars": ctx.vars, "dvars": [], "queries": queries}

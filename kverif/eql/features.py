"""Structural features of a query IR (what known findings and the evidence classes refer to)."""
from __future__ import annotations

import json

from .lang import close_refs, cond_refs, cond_terms, query_refs, term_refs, walk_conds


def _written_vars(ir, c):
    """variable set of a condition as the user wrote it (flatten nodes count through their source)"""
    # the engine decides between else-if and union on the query *variables* of the operands; a flatten node is not a
    # variable, it counts through the variables of its source
    return frozenset(r for r in close_refs(ir, cond_refs(c)) if r[0] == "var")


def filtered_domain_size(ir, i):
    v = ir["vars"][i]
    if v.get("sub"):
        from . import lang

        return len(lang.Oracle(ir, lang.build_world(ir["world"])).var_domains[i])
    if v.get("plain"):
        return len(v["dom"])
    n = 0
    for j in v["dom"]:
        if j < 0:
            continue
        cls = ir["world"]["objs"][j]["cls"]
        if v["type"] == "Item" or cls == v["type"]:
            n += 1
    return n


def _walk_terms(t):
    yield t
    if isinstance(t, dict) and "of" in t:
        yield from _walk_terms(t["of"])


def _has_symcall(c):
    from .lang import cond_terms

    return any(x.get("t") == "symcall" for n in walk_conds(c) for t in cond_terms(n) for x in _walk_terms(t) if isinstance(x, dict))


def _has_pred(c):
    return any(n["c"] in ("pred", "symfn", "hastype") for n in walk_conds(c)) or _has_symcall(c)


def or_chain(ir, c):
    """or_(x1, .., xn) is built as a left-nested chain of binary nodes; per step: (is_union, quantifier_inside)"""
    steps = []
    acc_vars = _written_vars(ir, c["xs"][0])
    acc_q = _has_quantifier(c["xs"][0])
    for x in c["xs"][1:]:
        v = _written_vars(ir, x)
        q = _has_quantifier(x)
        steps.append((acc_vars != v, acc_q or q))
        acc_vars = acc_vars | v
        acc_q = acc_q or q
    return steps


def _has_quantifier(c):
    return any(n["c"] in ("exists", "forall") for n in walk_conds(c))


def or_is_union(ir, c):
    """some binary step of the or_ chain combines operands written over different variable sets"""
    return any(u for u, _ in or_chain(ir, c))


def _falsy_literal_terms(c):
    for n in walk_conds(c):
        for t in cond_terms(n):
            stack = [t]
            while stack:
                x = stack.pop()
                if x["t"] == "lit" and not x["v"]:
                    yield x
                if x["t"] == "objs" and not x["v"]:
                    yield x
                if "of" in x:
                    stack.append(x["of"])


def query_features(ir):
    f = set()
    refs = query_refs(ir)
    all_conds = [n for c in ir["conds"] for n in walk_conds(c)]
    for i, v in enumerate(ir["vars"]):
        if v.get("sub"):
            all_conds += list(walk_conds(v["sub"]["cond"]))
    for n in all_conds:
        k = n["c"]
        if k == "or":
            if or_is_union(ir, n):
                f.add("or_union")
            elif any(_has_pred(x) for x in n["xs"]):
                f.add("or_same_vars_with_predicate")
            if any((not u) and q for u, q in or_chain(ir, n)):
                # only the else-if form (operands written over the same variables) loses the other operand when a
                # quantifier yields nothing; the union form evaluates both sides
                f.add("quantifier_in_or")
        if k == "not":
            inner = list(walk_conds(n["x"]))
            if any(m["c"] == "or" and or_is_union(ir, m) for m in inner):
                f.add("not_over_union")
            if any(m["c"] == "and" for m in inner):
                f.add("not_over_and")
            if any(m["c"] in ("exists", "forall") for m in inner):
                f.add("not_over_quantifier")
                for m in inner:
                    if m["c"] in ("and", "or") and any(q["c"] in ("exists", "forall") for q in walk_conds(m)):
                        f.add("quantifier_under_compound_negation")
                if n["x"]["c"] == "exists" and _has_pred(n["x"]["x"]):
                    f.add("forall_with_predicate")  # evaluated as for_all(v, not_(c))
        if k == "not" and n["x"]["c"] in ("and", "or") and '"share"' in json.dumps(n["x"]):
            # an expression object with several occurrences, one of them below a negated and_/or_ (which the engine
            # may rebuild with De Morgan's law)
            f.add("shared_below_compound_negation")
        if k in ("pred", "symfn"):
            args = n["args"] if k == "pred" else list(n["kw"].values())
            seen = [term_refs(a) for a in args]
            if len(seen) == 2 and seen[0] & seen[1]:
                f.add("pred_same_var_twice")
        if k in ("exists", "forall"):
            f.add(k)
            if any(True for _ in _falsy_literal_terms(n["x"])):
                f.add(k + "_falsy_literal")
            for r in cond_refs(n["x"]):
                sub = ir["vars"][r[1]].get("sub") if r[0] == "var" else None
                if sub:  # the sub-query's own condition is re-evaluated together with the quantifier's
                    if any(True for _ in _falsy_literal_terms(sub["cond"])):
                        f.add(k + "_falsy_literal")
                    if k == "forall" and _has_pred(sub["cond"]):
                        f.add("forall_with_predicate")
            if k == "forall" and _has_pred(n["x"]):
                f.add("forall_with_predicate")
            if k == "forall" and any(m["c"] == "or" and or_is_union(ir, m) for m in walk_conds(n["x"])):
                # an or_ over operands with different variable sets can hold without binding all outer variables
                f.add("union_inside_forall")
            if k == "forall" and any(r[0] == "dvar" and not ir["dvars"][r[1]].get("local") for r in cond_refs(n["x"])):
                f.add("forall_outer_flatten")
            for loc in n["locals"]:
                if loc[0] == "var" and filtered_domain_size(ir, loc[1]) == 0:
                    f.add(k + "_over_empty_domain")
    for (k, i) in refs:
        if k == "var":
            if filtered_domain_size(ir, i) == 0:
                f.add("empty_domain")
            if ir["vars"][i].get("sub"):
                f.add("subquery")
                if ir["vars"][i]["sub"]["cond"]["c"] == "bool":
                    f.add("subquery_bool_root")
        else:
            f.add("flatten")
            if any(not o["kids"] for o in ir["world"]["objs"]):
                f.add("flatten_maybe_empty")
    if "not_over_quantifier" in f and "exists_falsy_literal" in f:
        f.add("forall_falsy_literal")  # not_(exists(v, c)) is evaluated as for_all(v, not_(c))
    cond_vars = set()
    for c in ir["conds"]:
        cond_vars |= close_refs(ir, cond_refs(c))
    sel_refs_all = []
    for t in ir["sel"]["terms"]:
        r = close_refs(ir, term_refs(t))
        sel_refs_all.append(r)
        if t["t"] not in ("var", "dvar"):
            f.add("sel_derived")
            if not (r <= cond_vars):
                f.add("sel_derived_unbound")
        if not (r <= cond_vars):
            f.add("sel_unconstrained")
    if len(ir["sel"]["terms"]) > 1:
        f.add("sel_multi")
        # two selected expressions over the same variable (row consistency)
        for a in range(len(sel_refs_all)):
            for b in range(a + 1, len(sel_refs_all)):
                if sel_refs_all[a] & sel_refs_all[b]:
                    f.add("sel_shared_var")
    if not ir["conds"]:
        f.add("no_condition")
    return f


def query_classes(ir):
    f = query_features(ir)
    cls = sorted(f)
    refs = query_refs(ir)
    nv = sum(1 for r in refs if r[0] == "var")
    cls.append(f"vars{min(nv, 4)}")
    objs = ir["world"]["objs"]
    sig = [(o["cls"], o["a"], o["b"], o["name"]) for o in objs]
    if len(set(sig)) < len(sig):
        cls.append("value_equal_twins")
    if any(v.get("gen") for v in ir["vars"]):
        cls.append("generator_domain")
    if any(-1 in v["dom"] for v in ir["vars"] if not v.get("plain")):
        cls.append("noise_in_domain")
    if any(v.get("plain") and ("var", i) in refs for i, v in enumerate(ir["vars"])):
        cls.append("plain_value_variable")
        if any(v.get("plain") and any(not x for x in v["dom"]) for v in ir["vars"]):
            cls.append("plain_falsy_value")
    text = json.dumps(ir["conds"]) + json.dumps(ir["sel"])
    if '"symcall"' in text:
        cls.append("symbolic_function_output_as_operand")
    if '"share"' in text:
        cls.append("expression_object_occurs_twice")
    return cls

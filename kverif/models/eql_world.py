"""Harness domain model for the EQL checks (plain dataclasses, no Symbol involvement).

`Item` is eq=False so value-equal objects are distinct; `Val` is a frozen eq=True dataclass
so value-equal objects also *compare* equal.
"""
from __future__ import annotations

from dataclasses import dataclass, field
from typing import Dict, List, Optional


@dataclass(eq=False)
class Item:
    a: int = 0
    b: int = 0
    name: str = ""
    tags: List[int] = field(default_factory=list)
    kids: List["Item"] = field(default_factory=list)
    friend: Optional["Item"] = None
    props: Dict[str, int] = field(default_factory=dict)
    val: Optional["Val"] = None

    def big(self, k):
        return self.a > k

    def scaled(self, k=1, *, plus=0):
        """a method with a default and a keyword-only parameter; the call without arguments differs from the others"""
        return self.a * k + plus

    def __repr__(self):
        return f"{type(self).__name__}#{getattr(self, '_label', '?')}(a={self.a},b={self.b},name={self.name!r})"


@dataclass(eq=False, repr=False)
class SpecialItem(Item):
    pass


@dataclass(eq=False)
class Other:
    """A class unrelated to Item, mixed into domains to exercise let's type filter."""

    a: int = 0


@dataclass(frozen=True)
class Val:
    v: int = 0

"""Symbol model for the pattern-matching check (C11): scalar, reference, optional reference,
collection of Symbols, collection of builtins, and a subclass pair on both levels."""
from __future__ import annotations

from dataclasses import dataclass, field
from typing import List, Optional, Sequence

from krrood.entity_query_language.predicate import Symbol


@dataclass(eq=False)
class Part(Symbol):
    tag: int = 0
    label: str = ""
    sub: Optional["Part"] = None
    links: List["Part"] = field(default_factory=list)


@dataclass(eq=False)
class SpecialPart(Part):
    pass


@dataclass(eq=False)
class Box(Symbol):
    size: int = 0
    name: str = ""
    main: Part = None
    spare: Optional[Part] = None
    parts: List[Part] = field(default_factory=list)
    sizes: Sequence[int] = field(default_factory=list)  # a collection that is not annotated as List/Set


@dataclass(eq=False)
class BigBox(Box):
    """container-like: a big box without parts is falsy, and a domain element all the same"""

    def __len__(self):
        return len(self.parts)


@dataclass(eq=False)
class Crate(Symbol):
    """unrelated type mixed into domains"""

    size: int = 0


TYPES = {"Part": Part, "SpecialPart": SpecialPart, "Box": Box, "BigBox": BigBox, "Crate": Crate}

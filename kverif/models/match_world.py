"""Symbol model for the pattern-matching check (C11): scalar, reference, optional reference,
collection of Symbols, collection of builtins, and a subclass pair on both levels."""
from __future__ import annotations

from dataclasses import dataclass, field
from typing import List, Optional

from krrood.entity_query_language.predicate import Symbol


@dataclass(eq=False)
class Part(Symbol):
    tag: int = 0
    label: str = ""
    sub: Optional["Part"] = None
    links: List["Part"] = field(default_factory=list)


@dataclass(eq=False)
class SpecialPart(Part):
    pass


@dataclass(eq=False)
class Box(Symbol):
    size: int = 0
    name: str = ""
    main: Part = None
    spare: Optional[Part] = None
    parts: List[Part] = field(default_factory=list)
    sizes: List[int] = field(default_factory=list)


@dataclass(eq=False)
class BigBox(Box):
    pass


@dataclass(eq=False)
class Crate(Symbol):
    """unrelated type mixed into domains"""

    size: int = 0


TYPES = {"Part": Part, "SpecialPart": SpecialPart, "Box": Box, "BigBox": BigBox, "Crate": Crate}

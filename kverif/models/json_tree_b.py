"""A second module with serialisable classes that have the same simple names as classes of json_tree (Node1, Pair)
but other fields: the type tag is the fully qualified name, so the two must never be confused."""
from __future__ import annotations

from dataclasses import dataclass
from typing import Any

from krrood.adapters.json_serializer import SubclassJSONSerializer, from_json, to_json


@dataclass
class Node1(SubclassJSONSerializer):
    p: Any = None

    def to_json(self):
        return {**super().to_json(), "p": to_json(self.p)}

    @classmethod
    def _from_json(cls, data, **kwargs):
        return cls(p=from_json(data["p"]))


@dataclass
class Pair(SubclassJSONSerializer):
    first: Any = None
    second: Any = None
    third: Any = None

    def to_json(self):
        return {**super().to_json(), "first": to_json(self.first), "second": to_json(self.second), "third": to_json(self.third)}

    @classmethod
    def _from_json(cls, data, **kwargs):
        return cls(first=from_json(data["first"]), second=from_json(data["second"]), third=from_json(data["third"]))


CLASSES = {"Node1": Node1, "Pair": Pair}
FIELDS = {"Node1": ["p"], "Pair": ["first", "second", "third"]}
DEPTH = {"Node1": 1, "Pair": 1}


class UUID:
    """A plain class that shares its simple name with a registered third-party type (uuid.UUID): a tag that names it is
    not deserialisable."""


class Decimal:
    """As UUID, for decimal.Decimal."""

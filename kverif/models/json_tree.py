"""SubclassJSONSerializer class tree (depth 4) written exactly as doc/ormatic/json.rst prescribes,
plus third-party types registered through JSONSerializableTypeRegistry."""
from __future__ import annotations

import datetime
from dataclasses import dataclass, field
from decimal import Decimal
from fractions import Fraction
from typing import Any, List

from krrood.adapters.json_serializer import (
    JSON_TYPE_NAME,
    JSONSerializableTypeRegistry,
    SubclassJSONSerializer,
    from_json,
    to_json,
)
from krrood.utils import get_full_class_name


@dataclass
class Node0(SubclassJSONSerializer):
    x: Any = None

    def to_json(self):
        return {**super().to_json(), "x": to_json(self.x)}

    @classmethod
    def _from_json(cls, data, **kwargs):
        return cls(x=from_json(data["x"]))


@dataclass
class Node1(Node0):
    y: Any = None

    def to_json(self):
        return {**super().to_json(), "y": to_json(self.y)}

    @classmethod
    def _from_json(cls, data, **kwargs):
        return cls(x=from_json(data["x"]), y=from_json(data["y"]))


@dataclass
class Node2(Node1):
    z: List[Any] = field(default_factory=list)

    def to_json(self):
        data = super().to_json()
        data.update({"z": to_json(self.z)})
        return data

    @classmethod
    def _from_json(cls, data, **kwargs):
        return cls(x=from_json(data["x"]), y=from_json(data["y"]), z=from_json(data["z"]))


@dataclass
class Node3(Node2):
    """Depth 4 below SubclassJSONSerializer; inherits both methods unchanged."""


@dataclass
class Leaf(Node0):
    """Sibling of Node1 that inherits both methods."""


@dataclass
class Pair(SubclassJSONSerializer):
    left: Any = None
    right: Any = None

    def to_json(self):
        return {**super().to_json(), "left": to_json(self.left), "right": to_json(self.right)}

    @classmethod
    def _from_json(cls, data, **kwargs):
        return cls(left=from_json(data["left"]), right=from_json(data["right"]))


CLASSES = {c.__name__: c for c in (Node0, Node1, Node2, Node3, Leaf, Pair)}
FIELDS = {
    "Node0": ["x"], "Node1": ["x", "y"], "Node2": ["x", "y", "z"], "Node3": ["x", "y", "z"],
    "Leaf": ["x"], "Pair": ["left", "right"],
}
DEPTH = {"Node0": 1, "Node1": 2, "Node2": 3, "Node3": 4, "Leaf": 2, "Pair": 1}


class NotSerializable:
    """A plain class: naming it in a tag must give ClassNotDeserializableError."""


def a_function():
    return 1


AN_INSTANCE = 42


def _ser(conv):
    def serialize(obj):
        return {JSON_TYPE_NAME: get_full_class_name(type(obj)), "value": conv(obj)}
    return serialize


class Celsius:
    """A third-party style value type (not a SubclassJSONSerializer) and a subtype of it; both are registered, the
    subtype first - the mirror image of date/datetime, where the base type is registered first."""

    def __init__(self, degrees):
        self.degrees = degrees

    def __eq__(self, other):
        return type(self) is type(other) and self.__dict__ == other.__dict__

    def __hash__(self):
        return hash(self.degrees)

    def __repr__(self):
        return f"{type(self).__name__}({self.__dict__})"


class PreciseCelsius(Celsius):
    def __init__(self, degrees, error):
        super().__init__(degrees)
        self.error = error


_reg = JSONSerializableTypeRegistry()
_reg.register(PreciseCelsius, _ser(lambda c: [c.degrees, c.error]),
              lambda data, **kw: PreciseCelsius(data["value"][0], data["value"][1]))
_reg.register(Celsius, _ser(lambda c: c.degrees), lambda data, **kw: Celsius(data["value"]))
_reg.register(datetime.date, _ser(lambda d: d.isoformat()),
              lambda data, **kw: datetime.date.fromisoformat(data["value"]))
_reg.register(Decimal, _ser(str), lambda data, **kw: Decimal(data["value"]))
_reg.register(Fraction, _ser(lambda f: [f.numerator, f.denominator]),
              lambda data, **kw: Fraction(data["value"][0], data["value"][1]))
_reg.register(complex, _ser(lambda c: [c.real.hex(), c.imag.hex()]),
              lambda data, **kw: complex(float.fromhex(data["value"][0]), float.fromhex(data["value"][1])))
_reg.register(datetime.datetime, _ser(lambda d: d.isoformat()),
              lambda data, **kw: datetime.datetime.fromisoformat(data["value"]))

"""A module that cannot be imported: importing it raises ImportError (not ModuleNotFoundError)."""
raise ImportError("kverif: this module refuses to be imported")

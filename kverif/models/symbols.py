"""Symbol hierarchy for C13/C20: A, B(A), C(A), D(B, C) (diamond), E(B), F(A) (falsy instances), unrelated Z."""
from __future__ import annotations

from dataclasses import dataclass

from krrood.entity_query_language.predicate import Symbol


@dataclass(eq=False)
class A(Symbol):
    n: int = 0


@dataclass(eq=False)
class B(A):
    pass


@dataclass(eq=False)
class C(A):
    pass


@dataclass(eq=False)
class D(B, C):
    pass


@dataclass(eq=False)
class E(B):
    pass


@dataclass(eq=False)
class F(A):
    """an instance that is falsy (as a container-like Symbol with __len__ == 0 would be) is an instance all the same"""

    def __bool__(self):
        return False


@dataclass(eq=False)
class Z(Symbol):
    n: int = 0


CLASSES = {"A": A, "B": B, "C": C, "D": D, "E": E, "F": F, "Z": Z}
SUBCLASSES = {k: {n for n, c in CLASSES.items() if issubclass(c, v)} for k, v in CLASSES.items()}

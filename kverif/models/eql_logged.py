"""Instrumented twin of the EQL world: every data attribute is a logging property, every method logs.
Plain classes (not dataclasses) so that krrood does not try to introspect dataclass fields."""
from __future__ import annotations

LOG = []


def _prop(name):
    def get(self):
        LOG.append(("attr", self._label, name))
        return self.__dict__["_" + name]

    def set_(self, v):
        self.__dict__["_" + name] = v

    return property(get, set_)


class LItem:
    a = _prop("a")
    b = _prop("b")
    name = _prop("name")
    tags = _prop("tags")
    kids = _prop("kids")
    friend = _prop("friend")
    props = _prop("props")
    val = _prop("val")

    def __init__(self, a=0, b=0, name="", tags=None, kids=None, friend=None, props=None, val=None):
        self._label = None
        self.a, self.b, self.name = a, b, name
        self.tags, self.kids, self.friend = tags or [], kids or [], friend
        self.props, self.val = props or {}, val

    def big(self, k):
        LOG.append(("call", self._label, "big"))
        return self.__dict__["_a"] > k

    def scaled(self, k=1, *, plus=0):
        LOG.append(("call", self._label, "scaled"))
        return self.__dict__["_a"] * k + plus

    def __repr__(self):
        return f"L#{self._label}"


class LSpecialItem(LItem):
    pass


CLASSES = {"Item": LItem, "SpecialItem": LSpecialItem}


def build_world(world):
    """builds the objects without producing log entries"""
    from .eql_world import Val

    objs = []
    for i, o in enumerate(world["objs"]):
        obj = CLASSES[o["cls"]](a=o["a"], b=o["b"], name=o["name"], tags=list(o["tags"]), props=dict(o["props"]),
                                val=None if o["val"] is None else Val(o["val"]))
        obj._label = i
        objs.append(obj)
    for obj, o in zip(objs, world["objs"]):
        obj.kids = [objs[k] for k in o["kids"]]
        obj.friend = None if o["friend"] is None else objs[o["friend"]]
    return objs

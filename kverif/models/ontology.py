"""Harness ontology for the descriptor checks (C14-C16, C20).

A three-level sub-property chain (HeadOf < WorksFor < MemberOf < AffiliatedWith, HeadOf living on a role whose
super-properties live on the role taker), an inverse pair (MemberOf/Member), a transitive property (LinkedTo), a
transitive pair of inverses (PartOf/HasPart), list-, set- and single-valued managed fields. All instances are
eq=False, so objects that can meet in one managed set are pairwise unequal.
"""
from __future__ import annotations

from dataclasses import dataclass, field

from typing_extensions import List, Set, Type

from krrood.class_diagrams.utils import Role
from krrood.entity_query_language.predicate import Symbol
from krrood.ontomatic.property_descriptor.mixins import HasInverseProperty, TransitiveProperty
from krrood.ontomatic.property_descriptor.property_descriptor import PropertyDescriptor


@dataclass(eq=False)
class Org(Symbol):
    name: str
    members: Set[Agent] = field(default_factory=set)
    part_of: List[Org] = field(default_factory=list)
    has_part: List[Org] = field(default_factory=list)
    linked_to: List[Org] = field(default_factory=list)
    headed_by: List[Boss] = field(default_factory=list)

    def __repr__(self):
        return f"Org({self.name})"


@dataclass(eq=False)
class Agent(Symbol):
    name: str
    works_for: Org = None
    member_of: List[Org] = field(default_factory=list)
    affiliated_with: Set[Org] = field(default_factory=set)

    def __repr__(self):
        return f"Agent({self.name})"


@dataclass(eq=False)
class Fellow(Agent):
    """the field of the top-most super property exists in this subclass only"""

    connected_to: Set[Org] = field(default_factory=set)

    def __repr__(self):
        return f"Fellow({self.name})"


@dataclass(eq=False)
class Boss(Role[Agent], Symbol):
    agent: Agent
    head_of: Org = None

    # Role is an eq=True dataclass (unhashable); a role instance is identified by identity here
    __hash__ = object.__hash__
    __eq__ = object.__eq__

    def __repr__(self):
        return f"Boss({self.agent.name})"


@dataclass
class ConnectedTo(PropertyDescriptor):
    pass


@dataclass
class AffiliatedWith(ConnectedTo):
    pass


@dataclass
class MemberOf(AffiliatedWith, HasInverseProperty):
    @classmethod
    def get_inverse(cls) -> Type[Member]:
        return Member


@dataclass
class Member(PropertyDescriptor, HasInverseProperty):
    @classmethod
    def get_inverse(cls) -> Type[MemberOf]:
        return MemberOf


@dataclass
class WorksFor(MemberOf):
    pass


@dataclass
class HeadOf(WorksFor):
    """a role property with an inverse of its own on its range"""

    @classmethod
    def get_inverse(cls) -> Type[HeadedBy]:
        return HeadedBy


@dataclass
class HeadedBy(PropertyDescriptor, HasInverseProperty):
    @classmethod
    def get_inverse(cls) -> Type[HeadOf]:
        return HeadOf


@dataclass
class PartOf(PropertyDescriptor, TransitiveProperty, HasInverseProperty):
    @classmethod
    def get_inverse(cls) -> Type[HasPart]:
        return HasPart


@dataclass
class HasPart(PropertyDescriptor, TransitiveProperty, HasInverseProperty):
    @classmethod
    def get_inverse(cls) -> Type[PartOf]:
        return PartOf


@dataclass
class LinkedTo(PropertyDescriptor, TransitiveProperty):
    pass


Agent.works_for = WorksFor(Agent, "works_for")
Agent.member_of = MemberOf(Agent, "member_of")
Agent.affiliated_with = AffiliatedWith(Agent, "affiliated_with")
Fellow.connected_to = ConnectedTo(Fellow, "connected_to")
Boss.head_of = HeadOf(Boss, "head_of")
Org.members = Member(Org, "members")
Org.part_of = PartOf(Org, "part_of")
Org.has_part = HasPart(Org, "has_part")
Org.linked_to = LinkedTo(Org, "linked_to")
Org.headed_by = HeadedBy(Org, "headed_by")

CLASSES = {"Org": Org, "Agent": Agent, "Fellow": Fellow, "Boss": Boss}

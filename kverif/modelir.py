"""Model IR (sets of dataclasses) shared by C17, C06 and C05: strategy, renderer to an importable module,
and the independent reading of what the model declares.

IR: {"classes":[{"name":"C0","base":idx|None,"fields":[{"name","t":T}]}], "enum": bool, "order":[indexes]}
T:  {"k":"int"|"float"|"str"|"bool"|"datetime"|"enum"}            scalar
    {"k":"opt","of":T}                                           Optional[scalar or ref]
    {"k":"list"|"set"|"seq","of":T}                              collection of builtin or ref
    {"k":"ref","c":idx}                                          reference to a class of the model
    {"k":"type","c":idx}                                         Type[C]
    {"k":"ext"}                                                  reference to a dataclass outside the diagram
Classes are declared in index order in the rendered module (bases have smaller indexes); "order" is the order in
which the classes are handed to krrood.
"""
from __future__ import annotations

import importlib.util
import itertools
import os
import sys
import tempfile
import types
from typing import Any, Dict, List, Optional

from hypothesis import strategies as st

SCALARS = ["int", "float", "str", "bool"]
PY = {"int": "int", "float": "float", "str": "str", "bool": "bool", "datetime": "datetime.datetime", "enum": "Color", "uuid": "uuid.UUID"}
DEFAULTS = {"uuid": "None", "int": "0", "float": "0.0", "str": "''", "bool": "False", "datetime": "datetime.datetime(2020, 1, 1)", "enum": "Color.RED"}


def annotation(t, names, quote: bool = False) -> str:
    """quote: class references are written as quoted forward references (modules without the future import)"""
    k = t["k"]
    q = '"' if quote else ""
    if k in PY:
        return PY[k]
    if k == "opt":
        return f"Optional[{annotation(t['of'], names, quote)}]"
    if k == "list":
        return f"List[{annotation(t['of'], names, quote)}]"
    if k == "set":
        return f"Set[{annotation(t['of'], names, quote)}]"
    if k == "seq":
        return f"Sequence[{annotation(t['of'], names, quote)}]"
    if k == "ref":
        return f"{q}{names[t['c']]}{q}"
    if k == "type":
        return f"Type[{q}{names[t['c']]}{q}]"
    if k == "ext":
        return "Outside"
    if k == "alt":
        return "Vec"
    if k == "lab":
        return "Label"
    if k == "trk":
        return "Track"
    if k == "custom":
        return "Money"
    raise ValueError(k)


def default_of(t) -> str:
    k = t["k"]
    if k in DEFAULTS:
        return DEFAULTS[k]
    if k in ("opt", "ref", "ext", "type", "alt", "custom", "lab", "trk"):
        return "None"
    if k in ("list", "seq"):
        return "field(default_factory=list)"
    if k == "set":
        return "field(default_factory=set)"
    raise ValueError(k)


def render(ir, module_name: str, eq: bool = True) -> str:
    names = [c["name"] for c in ir["classes"]]
    future = ir.get("future", True)
    lines = [
        "from __future__ import annotations" if future else "# annotations are evaluated: class references are quoted",
        "import datetime, enum, uuid",
        "from dataclasses import dataclass, field",
        "from typing_extensions import List, Optional, Set, Sequence, Type",
        "",
        "class Color(enum.Enum):",
        "    RED = 'red'",
        "    BLUE = 'blue'",
        "",
        "@dataclass",
        "class Outside:",
        "    z: int = 0",
        "",
        "from typing import Generic, TypeVar",
        "T_ = TypeVar('T_')",
        "class Wrapper(Generic[T_]):",
        "    pass",
        "",
    ]
    if ir.get("extras"):
        lines += EXTRAS.splitlines()
    for c in ir["classes"]:
        bases = [names[b] for b in (c["base"], c.get("base2")) if b is not None]
        if c.get("generic"):
            bases.append("Wrapper[int]")  # a parameterised generic base that is not part of the model
        base = f"({', '.join(bases)})" if bases else ""
        lines.append("@dataclass" if eq else "@dataclass(eq=False)")
        lines.append(f"class {c['name']}{base}:")
        if not c["fields"]:
            lines.append("    pass")
        for f in c["fields"]:
            default = default_of(f["t"])
            if f.get("kw_only"):
                # a keyword-only constructor parameter
                default = default[:-1] + ", kw_only=True)" if default.startswith("field(") else f"field(default={default}, kw_only=True)"
            lines.append(f"    {f['name']}: {annotation(f['t'], names, quote=not future)} = {default}")
        lines.append("")
    return "\n".join(lines)


EXTRAS = '''
from sqlalchemy import TypeDecorator, types
from krrood.ormatic.dao import AlternativeMapping


class Vec:
    """not a dataclass: persisted through an alternative mapping (lossless)"""

    def __init__(self, x, y):
        self.x, self.y = x, y


@dataclass
class VecMapping(AlternativeMapping[Vec]):
    x: float
    y: float

    @classmethod
    def create_instance(cls, obj):
        return cls(obj.x, obj.y)

    def create_from_dao(self):
        return Vec(self.x, self.y)


@dataclass
class Label:
    """a dataclass persisted through an alternative mapping (lossless); `code` is unique per object"""
    text: str = ""
    code: int = 0


@dataclass
class LabelMapping(AlternativeMapping[Label]):
    text: str
    code: int

    @classmethod
    def create_instance(cls, obj):
        return cls(obj.text, obj.code)

    def create_from_dao(self):
        return Label(self.text, self.code)


@dataclass
class Title(Label):
    """normally mapped, but inherits from an alternatively mapped class; refers back into the model (cycles)"""
    size: int = 0
    owner: Optional[C0] = None


class Track:
    """not a dataclass; its alternative mapping builds mapped helper objects (Vec) on the fly while converting"""

    def __init__(self, key, points):
        self.key, self.points = key, points


@dataclass
class TrackMapping(AlternativeMapping[Track]):
    key: int
    points: List[Vec]

    @classmethod
    def create_instance(cls, obj):
        return cls(obj.key, [Vec(x, y) for x, y in obj.points])

    def create_from_dao(self):
        return Track(self.key, [(v.x, v.y) for v in self.points])


class Money:
    """a value persisted through a custom column type (lossless)"""

    def __init__(self, cents):
        self.cents = cents


class MoneyType(TypeDecorator):
    impl = types.Integer
    cache_ok = True

    def process_bind_param(self, value, dialect):
        return None if value is None else value.cents

    def process_result_value(self, value, dialect):
        return None if value is None else Money(value)

'''

_COUNTER = itertools.count()


def load(ir, scratch_dir: Optional[str] = None, eq: bool = True, prefix="kvmodel"):
    """render the IR into a module, import it under a unique name; returns (module, [classes in index order])"""
    name = f"{prefix}_{os.getpid()}_{next(_COUNTER)}"
    src = render(ir, name, eq=eq)
    if scratch_dir is None:
        mod = types.ModuleType(name)
        mod.__dict__["__name__"] = name
        sys.modules[name] = mod
        exec(compile(src, f"<{name}>", "exec", dont_inherit=True), mod.__dict__)  # not this module's future flags
    else:
        path = os.path.join(scratch_dir, name + ".py")
        with open(path, "w") as fh:
            fh.write(src)
        spec = importlib.util.spec_from_file_location(name, path)
        mod = importlib.util.module_from_spec(spec)
        sys.modules[name] = mod
        spec.loader.exec_module(mod)
    return mod, [getattr(mod, c["name"]) for c in ir["classes"]]


def unload(mod):
    sys.modules.pop(mod.__name__, None)


# ----------------------------------------------------------------------------- independent reading of the IR
def all_fields(ir, i) -> List[Dict[str, Any]]:
    """dataclass fields of class i in dataclass order: inherited first"""
    c = ir["classes"][i]
    inherited = []
    # dataclass order follows the reversed MRO: the second base (a mix-in without bases of its own) comes first
    for b in (c.get("base2"), c["base"]):
        if b is not None:
            seen = {f["name"] for f in inherited}
            inherited += [f for f in all_fields(ir, b) if f["name"] not in seen]
    own = {f["name"] for f in c["fields"]}
    return [f for f in inherited if f["name"] not in own] + list(c["fields"])


def ancestors(ir, i) -> List[int]:
    """the chain of first bases (what joined-table inheritance mirrors)"""
    out = []
    b = ir["classes"][i]["base"]
    while b is not None:
        out.append(b)
        b = ir["classes"][b]["base"]
    return out


def direct_bases(ir, i) -> List[int]:
    c = ir["classes"][i]
    return [b for b in (c["base"], c.get("base2")) if b is not None]


def all_ancestors(ir, i) -> List[int]:
    """every class i inherits from, through first and second bases"""
    out = []
    for b in direct_bases(ir, i):
        for a in [b] + all_ancestors(ir, b):
            if a not in out:
                out.append(a)
    return out


def endpoint(t):
    """(kind, target) the declared type points at, seen through Optional and container wrappers"""
    while t["k"] in ("opt", "list", "set", "seq"):
        t = t["of"]
    return t


def classify(t) -> Dict[str, Any]:
    k = t["k"]
    e = endpoint(t)
    return dict(
        is_optional=k == "opt",
        is_container=k in ("list", "set", "seq", "type"),
        is_type_type=k == "type",
        is_builtin=e["k"] in ("int", "float", "str", "bool", "datetime"),
        is_enum=(k == "enum") or (k == "opt" and t["of"]["k"] == "enum"),
        endpoint=e,
    )


# ----------------------------------------------------------------------------- strategies
@st.composite
def model_ir(draw, max_classes=6, grammar="diagram", allow_self=True, allow_ext=True, allow_type=True,
             allow_seq=True, allow_set=True, allow_self_collection=True, allow_underscore=True, require_builtin=False,
             allow_mutual=True, extras=False, uid=False, allow_mixin=False, chain_bias=False, allow_kw_only=False, allow_generic=False):
    """grammar: "diagram" (C17: everything) or "orm" (C06: the documented modelling rules)"""
    n = draw(st.integers(1, max_classes))
    classes = []
    for i in range(n):
        base = None
        if chain_bias and i in (1, 2) and draw(st.booleans()):
            base = i - 1  # C0 <- C1 <- C2: a chain of three mapped levels is frequent
        elif i > 0 and draw(st.sampled_from([0, 0, 1, 1, 1])):
            base = draw(st.integers(0, i - 1))
        base2 = None
        if allow_mixin and base is not None and draw(st.sampled_from([0, 0, 1])):
            # a second base: a class without bases of its own that the first base does not already inherit from
            partial = {"classes": classes}
            cands = [j for j in range(i) if classes[j]["base"] is None and classes[j].get("base2") is None
                     and j != base and j not in all_ancestors(partial, base)]
            if cands:
                base2 = draw(st.sampled_from(cands))
        classes.append({"name": f"C{i}", "base": base, "fields": []})
        if base2 is not None:
            classes[-1]["base2"] = base2
        if allow_generic and draw(st.integers(0, 4)) == 0:
            classes[-1]["generic"] = True
    used_names = [set() for _ in range(n)]

    def inherited_names(i):
        out = set()
        for a in all_ancestors({"classes": classes}, i):
            out |= used_names[a]
        return out

    scalar = st.sampled_from(["int", "int", "float", "str", "bool", "datetime", "enum"]).map(lambda k: {"k": k})
    builtin_scalar = st.sampled_from(SCALARS).map(lambda k: {"k": k})
    for i in range(n):
        n_fields = draw(st.integers(0, 4))
        for j in range(n_fields):
            kind = draw(st.sampled_from(["scalar", "scalar", "opt_scalar", "list_builtin", "ref", "opt_ref", "coll_ref", "coll_ref"]
                                        + (["type"] if allow_type and grammar == "diagram" else [])
                                        + (["ext"] if allow_ext and grammar == "diagram" else [])
                                        + (["alt", "opt_alt", "list_alt", "custom", "opt_custom", "lab", "opt_lab", "list_lab", "trk", "list_trk"] if extras else [])))
            targets = list(range(n)) if allow_self else [x for x in range(n) if x != i]
            if not allow_mutual:
                targets = [x for x in targets if x >= i] if allow_self else [x for x in targets if x > i]
            if kind == "scalar":
                t = draw(scalar)
            elif kind == "opt_scalar":
                t = {"k": "opt", "of": draw(scalar)}
            elif kind == "list_builtin":
                t = {"k": "list", "of": draw(builtin_scalar)}
                if grammar == "orm" and draw(st.integers(0, 3)) == 0:
                    t = {"k": "list", "of": {"k": "uuid"}}  # a JSON list that needs krrood's JSON (de)serializer
            elif kind in ("ref", "opt_ref", "coll_ref", "type") and not targets:
                t = draw(scalar)
            elif kind == "ref":
                t = {"k": "ref", "c": draw(st.sampled_from(targets))}
            elif kind == "opt_ref":
                t = {"k": "opt", "of": {"k": "ref", "c": draw(st.sampled_from(targets))}}
            elif kind == "coll_ref":
                tg = draw(st.sampled_from(targets))
                if tg == i and not allow_self_collection:
                    t = {"k": "opt", "of": {"k": "ref", "c": tg}}
                else:
                    ck = draw(st.sampled_from(["list", "list"] + (["set"] if allow_set else []) + (["seq"] if allow_seq and grammar == "diagram" else [])))
                    t = {"k": ck, "of": {"k": "ref", "c": tg}}
            elif kind == "type":
                t = {"k": "type", "c": draw(st.sampled_from(targets))}
            elif kind == "alt":
                t = {"k": "alt"}
            elif kind == "opt_alt":
                t = {"k": "opt", "of": {"k": "alt"}}
            elif kind == "list_alt":
                t = {"k": "list", "of": {"k": "alt"}}
            elif kind == "lab":
                t = {"k": "lab"}
            elif kind == "opt_lab":
                t = {"k": "opt", "of": {"k": "lab"}}
            elif kind == "list_lab":
                t = {"k": "list", "of": {"k": "lab"}}
            elif kind == "trk":
                t = {"k": "trk"}
            elif kind == "list_trk":
                t = {"k": "list", "of": {"k": "trk"}}
            elif kind == "custom":
                t = {"k": "custom"}
            elif kind == "opt_custom":
                t = {"k": "opt", "of": {"k": "custom"}}
            else:
                t = {"k": "ext"}
            name = f"f{i}_{j}"
            if allow_underscore and draw(st.integers(0, 7)) == 0:
                name = "_" + name
            classes[i]["fields"].append({"name": name, "t": t})
            if allow_kw_only and draw(st.integers(0, 5)) == 0:
                classes[i]["fields"][-1]["kw_only"] = True
            used_names[i].add(name)
    if require_builtin and not any(classify(f["t"])["is_builtin"] and f["t"]["k"] in SCALARS for c in classes for f in c["fields"] if not f["name"].startswith("_")):
        classes[0]["fields"].append({"name": "f0_b", "t": {"k": "int"}})
    if uid:
        for c in classes:
            if c["base"] is None:
                c["fields"].insert(0, {"name": "uid", "t": {"k": "int"}})
    order = draw(st.permutations(list(range(n))))
    out = {"classes": classes, "order": list(order)}
    if extras:
        out["extras"] = True
    return out
